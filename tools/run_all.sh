#!/bin/bash
# usage: tools/run_all.sh [quick|thorough] [ids...]   — runs the checks on /repo as it is and prints one line each
TIER="${1:-quick}"; shift
IDS="$@"; [ -z "$IDS" ] && IDS="C01 C02 C03 C04 C05 C06 C07 C08 C09 C10 C11 C12 C13 C14 C15 C16 C17 C18 C19"
cd "$(dirname "$(realpath "$0")")/.." || exit 2
for p in $IDS; do
  s=$(date +%s); out=$(./check $p $TIER 2>&1); code=$?; e=$(date +%s)
  echo "$p exit=$code total=$((e-s))s $(echo "$out" | grep -E '^SUMMARY' | cut -c1-160)"
  echo "$out" | grep -E "^VIOLATION|MACHINERY" | head -5
done
