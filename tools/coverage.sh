#!/bin/bash
# usage: tools/coverage.sh [quick|thorough] [ids...]
# Self-audit, not a check: which lines of /repo/src does no check execute?  Builds the harness with
# source-based coverage instrumentation (nightly toolchain: its llvm-tools match), runs the named checks'
# explorers against a scratch VERIF_ROOT (evidence in /verif is not touched) and prints, per library file,
# the line coverage and the uncovered regions.  An uncovered branch of the library is, by construction, a gap
# in some alphabet: nothing the checks say can depend on it.
# Output: /tmp/verif-cov/report.txt (summary), /tmp/verif-cov/uncovered.txt (file:line source of uncovered lines).
set -u
VERIF="$(cd "$(dirname "$(realpath "$0")")/.." && pwd)"
TIER="${1:-quick}"; shift
IDS="$@"; [ -z "$IDS" ] && IDS="C01 C02 C03 C04 C05 C06 C07 C08 C09 C10 C11 C12 C13 C14 C15 C16 C17 C18 C19"
W=/tmp/verif-cov; T=$W/target; P=$W/prof; R=$W/root
LL=$(dirname "$(rustup which --toolchain nightly rustc)")/../lib/rustlib/x86_64-unknown-linux-gnu/bin
mkdir -p "$T" "$P" "$R/evidence" "$R/replays"
cp "$VERIF/known_findings.json" "$R/"
export PUBLISH_SKIP_BUILD=1 CARGO_NET_OFFLINE=true
( cd "$VERIF/harness" && LLVM_PROFILE_FILE="$W/build-%p.profraw.ignore" RUSTFLAGS="-C instrument-coverage" CARGO_TARGET_DIR="$T" cargo +nightly build --release --offline 2>&1 | tail -3 ) || exit 2
for p in $IDS; do
  BIN=$T/release/mc; [ "$p" = C18 ] && BIN=$T/release/ffi_audit
  s=$(date +%s)
  VERIF_WATCHDOG_S=900 LLVM_PROFILE_FILE="$P/$p-%p-%m.profraw" VERIF_ROOT="$R" "$BIN" "$p" "$TIER" 2>&1 | grep -E "^SUMMARY|^VIOLATION|MACHINERY" | cut -c1-200
  echo "-- $p done in $(( $(date +%s) - s ))s"
done
"$LL/llvm-profdata" merge -sparse "$P"/*.profraw -o "$W/all.profdata" || exit 2
OBJ="-object $T/release/mc -object $T/release/ffi_audit"
"$LL/llvm-cov" report -instr-profile="$W/all.profdata" $OBJ --ignore-filename-regex='(/\.cargo/|/rustc/|/verif/|/tmp/)' > "$W/report.txt" 2>/dev/null
"$LL/llvm-cov" show -instr-profile="$W/all.profdata" $OBJ --ignore-filename-regex='(/\.cargo/|/rustc/|/verif/|/tmp/)' \
   --show-line-counts-or-regions --format=text 2>/dev/null > "$W/show.txt"
python3 - "$W/show.txt" > "$W/uncovered.txt" <<'EOF'
import re, sys
cur = None
for line in open(sys.argv[1], errors="replace"):
    m = re.match(r"^(/\S+\.rs):$", line.strip())
    if m: cur = m.group(1); continue
    m = re.match(r"^\s*(\d+)\|\s*0\|(.*)$", line.rstrip("\n"))
    if m and cur and "/src/" in cur:
        src = m.group(2).strip()
        if src and src not in ("}", "{", "})", "});", "};", "else {", "} else {"):
            print(f"{cur.split('/src/',1)[1]}:{m.group(1)}: {src}")
EOF
tail -1 "$W/report.txt"; wc -l "$W/uncovered.txt"
