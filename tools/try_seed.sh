#!/bin/bash
# usage: tools/try_seed.sh <patch.diff> <Cxx> [tier] [more Cxx ...]
# Applies a seeded change to /repo, runs the given checks, prints exit codes and VIOLATION lines, and
# ALWAYS restores /repo afterwards. Never commits anything in /repo.
set -u
PATCH="$(realpath "$1")"; shift
TIER="quick"
cd /verif || exit 2
if ! git -C /repo diff --quiet; then echo "refusing: /repo has uncommitted changes"; exit 2; fi
if ! git -C /repo apply --check "$PATCH" 2>/dev/null; then echo "patch does not apply: $PATCH"; exit 2; fi
git -C /repo apply "$PATCH"
trap 'git -C /repo checkout -- . ; echo "[/repo restored]"' EXIT
for arg in "$@"; do
  case "$arg" in quick|thorough) TIER="$arg"; continue;; esac
  out=$(./check "$arg" "$TIER" 2>&1); code=$?
  echo "== $arg $TIER exit=$code"
  echo "$out" | grep -E "^VIOLATION|signature:|MACHINERY|SUMMARY" | cut -c1-220 | head -12
done
