#!/bin/bash
# usage: tools/seed_regress.sh [seed ids...]        (default: every directory under seeded/)
# Regression matrix of the seeded changes WITHOUT touching /repo: a scratch git worktree of /repo HEAD and a
# scratch copy of the harness (path dependency rewritten to the worktree, own target directory, own
# evidence / replay directories) are created under $SCRATCH (default /tmp/seedreg); for every seed the patch
# is applied to the worktree, the quick tier of every check named in meta.json "reported_by" is run and must
# exit 1 with a VIOLATION line. One line per (seed, check) is printed and appended to $SCRATCH/matrix.tsv.
# The scratch tree is removed at the end unless KEEP=1.
set -u
VERIF="$(cd "$(dirname "$(realpath "$0")")/.." && pwd)"
SCRATCH="${SCRATCH:-/tmp/seedreg}"
TIER="${TIER:-quick}"
export PUBLISH_SKIP_BUILD=1 CARGO_NET_OFFLINE=true
mkdir -p "$SCRATCH"
if [ ! -d "$SCRATCH/repo" ]; then
  git -C /repo worktree add -q --detach "$SCRATCH/repo" HEAD || exit 2
fi
git -C "$SCRATCH/repo" checkout -q --detach "$(git -C /repo rev-parse HEAD)" || exit 2
git -C "$SCRATCH/repo" checkout -q -- . || exit 2
mkdir -p "$SCRATCH/verif"
rsync -a --delete --exclude target "$VERIF/harness/" "$SCRATCH/verif/harness/" --exclude target
sed -i "s#path = \"/repo\"#path = \"$SCRATCH/repo\"#" "$SCRATCH/verif/harness/Cargo.toml"
cp "$VERIF/check" "$VERIF/known_findings.json" "$SCRATCH/verif/"
SEEDS="$*"; [ -z "$SEEDS" ] && SEEDS="$(ls "$VERIF/seeded")"
: > "$SCRATCH/matrix.tsv"
for s in $SEEDS; do
  d="$VERIF/seeded/$s"
  git -C "$SCRATCH/repo" checkout -q -- .
  if ! git -C "$SCRATCH/repo" apply --check "$d/patch.diff" 2>/dev/null; then
    echo -e "$s\t-\tPATCH-DOES-NOT-APPLY" | tee -a "$SCRATCH/matrix.tsv"; continue
  fi
  git -C "$SCRATCH/repo" apply "$d/patch.diff"
  checks=$(python3 -c "import json,sys; print(' '.join(json.load(open('$d/meta.json'))['reported_by'].keys()))")
  for c in $checks; do
    t0=$(date +%s)
    out=$("$SCRATCH/verif/check" "$c" "$TIER" 2>&1); code=$?
    t1=$(date +%s)
    sigs=$(echo "$out" | grep -E "^  signature:" | sed 's/^  signature: //' | cut -c1-90 | head -3 | tr '\n' ';')
    verdict="MISSED"; [ $code -eq 1 ] && verdict="reported"; [ $code -ge 2 ] && verdict="MACHINERY($code)"
    echo -e "$s\t$c\t$verdict\t$((t1-t0))s\t$sigs" | tee -a "$SCRATCH/matrix.tsv"
    [ $code -ge 2 ] && echo "$out" | grep -E "MACHINERY|error" | head -5
  done
done
git -C "$SCRATCH/repo" checkout -q -- .
if [ "${KEEP:-0}" != "1" ]; then
  cp "$SCRATCH/matrix.tsv" "$VERIF/seeded/last_matrix.tsv" 2>/dev/null
  git -C /repo worktree remove --force "$SCRATCH/repo"
  rm -rf "$SCRATCH"
fi
