#!/bin/bash
# usage: tools/round_run.sh <seedroot> <scratch-dir> <Cxx> <letter>
# One seed of a seeding round, measured against the machinery as it stands: confirm the seed in the agent's
# worktree (suite green with it, demo fails with it, passes without), then run the check of its own property and
# of the neighbouring layers on a scratch copy. Prints RESULT / == lines; appends them to <seedroot>/results.log.
set -u
VERIF="$(cd "$(dirname "$(realpath "$0")")/.." && pwd)"
SEEDROOT="$1"; SCR="$2"; ID="$3"; V="$4"
declare -A NB=( [C01]="C17 C02" [C02]="C19 C01" [C03]="C04 C15" [C04]="C03 C15" [C05]="C06 C11" [C06]="C05" [C07]="" [C08]="C12 C01"
  [C09]="C01" [C10]="C12" [C11]="C05 C02" [C12]="C08" [C13]="C05" [C14]="C03" [C15]="C03 C04" [C16]="C03" [C17]="C01" [C18]="C07" [C19]="C02 C05" )
{
echo "#### $ID-$V $(date +%T)"
SEEDROOT="$SEEDROOT" "$VERIF/tools/confirm_seed.sh" "$ID" "$V" 2>&1 | grep RESULT
"$VERIF/tools/scratch_try.sh" "$SCR" "$SEEDROOT-$ID/$V/patch.diff" "$ID" ${NB[$ID]} 2>&1
} | tee -a "$SEEDROOT/results.log"
