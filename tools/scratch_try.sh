#!/bin/bash
# usage: tools/scratch_try.sh <scratch-dir> <patch.diff> <Cxx> [quick|thorough] [more Cxx ...]
# Like try_seed.sh but never touches /repo: the patch is applied to a scratch git worktree of /repo HEAD under
# <scratch-dir>, a scratch copy of the harness (path dependency rewritten, own target/evidence/replays) is built
# against it and the named checks are run there. The scratch tree is kept for reuse (faster rebuilds); remove it
# with: git -C /repo worktree remove --force <scratch-dir>/repo; rm -rf <scratch-dir>
set -u
VERIF="$(cd "$(dirname "$(realpath "$0")")/.." && pwd)"
SCRATCH="$1"; PATCH="$(realpath "$2")"; shift 2
TIER=quick
export PUBLISH_SKIP_BUILD=1 CARGO_NET_OFFLINE=true
mkdir -p "$SCRATCH"
[ -d "$SCRATCH/repo" ] || git -C /repo worktree add -q --detach "$SCRATCH/repo" HEAD || exit 2
git -C "$SCRATCH/repo" checkout -q --detach "${BASE_COMMIT:-$(git -C /repo rev-parse HEAD)}" || exit 2
git -C "$SCRATCH/repo" checkout -q -- . || exit 2
mkdir -p "$SCRATCH/verif"
rsync -a --delete --exclude target "$VERIF/harness/" "$SCRATCH/verif/harness/"
sed -i "s#path = \"/repo\"#path = \"$SCRATCH/repo\"#" "$SCRATCH/verif/harness/Cargo.toml"
cp "$VERIF/check" "$VERIF/known_findings.json" "$SCRATCH/verif/"
if ! git -C "$SCRATCH/repo" apply --check "$PATCH" 2>/dev/null; then echo "patch does not apply: $PATCH"; exit 2; fi
git -C "$SCRATCH/repo" apply "$PATCH"
for arg in "$@"; do
  case "$arg" in quick|thorough) TIER="$arg"; continue;; esac
  t0=$(date +%s)
  out=$("$SCRATCH/verif/check" "$arg" "$TIER" 2>&1); code=$?
  echo "== $arg $TIER exit=$code $(( $(date +%s) - t0 ))s"
  echo "$out" | grep -E "^VIOLATION|signature:|MACHINERY|SUMMARY|^NOTE|KNOWN" | cut -c1-260 | head -14
done
git -C "$SCRATCH/repo" checkout -q -- .
