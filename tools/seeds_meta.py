#!/usr/bin/env python3
"""Writes /verif/seeded/<id>/meta.json for every seeded change and prints the DESIGN.md table.
The facts below were established by tools/confirm_seed.sh (suite passes with the change, demo fails with it,
demo passes without it — all confirmed in the seeding agent's scratch worktree) and tools/try_seed.sh
(which checks report the change when it is applied to /repo)."""
import json, os
ROOT = os.path.dirname(os.path.dirname(os.path.abspath(__file__)))
# id: (property, files, what, needs, caught_by (check: first signature), note)
S = {
 "C01-A": ("C01", "src/regex_radix_tree/tree.rs", "RegexTreeMap::retain does not write an empty result back: the root stays Empty(false) and loses ignore_case",
           "ignore_path_and_query_case / ignore_host_case, a batch removal (batch_remove / change-set) that empties a regex tree, then insertion of a marker rule with an upper-case literal",
           {"C02": "missed-rule:r2 dynamic /a/@m/B (upper-case literal), differs-from-rebuild"}, "history-dependent: not visible to C01's insert-only exploration; first missed by C02 too (no upper-case literal in a dynamic rule) -> universe extended"),
 "C01-B": ("C01", "src/router/request_matcher/host.rs", "HostMatcher::match_request walks the host-pattern tree only when no literal-host rule matched",
           "a literal-host rule and a host-pattern rule covering the same host, both satisfied", {"C01": "missed-rule:host=@h.example[a-z]+"}, ""),
 "C02-A": ("C02", "src/router/request_matcher/method.rs", "MethodMatcher::remove stops after the first method bucket that held the rule",
           "a rule with >=2 methods removed through the single Router::remove, probed on a method whose bucket was not cleaned", {"C02": "removed-rule-still-matches / differs-from-rebuild"}, ""),
 "C02-B": ("C02", "src/regex_radix_tree/tree.rs", "same mechanism as C01-A (written independently)", "see C01-A", {"C02": "missed-rule:r2 dynamic /a/@m/B (upper-case literal)"}, "first missed -> universe extended with upper-case literals"),
 "C03-A": ("C03", "src/filter/html_filter_body.rs", "text is held back only when it ENDS with '<' or '</' instead of when it CONTAINS '<'",
           "a filter targeting a raw-text element (title, textarea) and a chunk boundary inside the name of its closing tag", {"C03": "cut-inside-rawtext-plain(title)"},
           "first missed twice: (1) no filter targeted a raw-text element -> three filter lists and a <title> token added; (2) then masked by the open finding cut-inside-rawtext(title) -> signature narrowed: raw text / comments WITHOUT markup-like content are named -plain and are never known"),
 "C03-B": ("C03", "src/filter/html_filter_body.rs", "incomplete_utf8_tail_len scans 1..min(len,4) instead of 1..=min(len,3)",
           "a chunk consisting only of the first 1-3 bytes of a multi-byte character while nothing is held (>=3 chunks)", {"C03": "cut-inside-utf8-sequence / multi-cut(...)"}, ""),
 "C04-A": ("C04", "src/filter/html_filter_body.rs", "the incomplete UTF-8 tail is not restored on the early-return path of the text look-ahead loop",
           "a chunk boundary inside a multi-byte character whose chunk ends with a text token containing a literal '<'", {"C04": "insert-only-not-conserved:invalid-utf8-input:chunked-only (and valid-utf8 variants)"}, ""),
 "C04-B": ("C04", "src/filter/html_body_action/body_append.rs", "append_child drops the remainder of the buffer after the first level-0 end tag",
           "append_child with a non-matching selector on an element containing an end tag that closes nothing (</link>, stray </p>)", {"C04": "insert-only-not-conserved:valid-utf8-input"}, ""),
 "C05-A": ("C05", "src/action/mod.rs", "Action::merge keeps a conditional status rule as fallback of another conditional one",
           "two conditional status rules and a response code the higher-priority one does not admit", {"C05": "status:..."}, ""),
 "C05-B": ("C05", "src/action/mod.rs", "a rule with reset AND stop no longer stops", "one rule carrying both flags plus a higher-priority rule with a visible effect", {"C05": "applied-ids / status:controls=...ResetStop"}, ""),
 "C06-A": ("C06", "src/action/log_override.rs", "fallback_log_override: Some(false) is skipped when serialising", "unconditional log_override:false rule under a conditional log rule, response code outside its list", {"C06": "behaviour-differs-after-roundtrip:serde/ffi/used-action"}, ""),
 "C06-B": ("C06", "src/http/request.rs", "remote_addr is canonicalised (IPv4-mapped IPv6 -> IPv4) on deserialisation only", "a request whose client address is ::ffff:a.b.c.d and rules with ip constraints", {"C06": "request-reserialisation-differs, restored-request-matches-differently"},
           "first missed (no mapped address in the alphabet) -> added; then the replay did not reproduce because the replay file stored the request as JSON (which goes through the seeded deserialiser) -> replay files now store the construction recipe"),
 "C07-A": ("C07", "src/filter/html_filter_body.rs", "incomplete_utf8_tail_len scans a constant 1..=3: index underflow", "data of exactly 1-2 bytes, all stray continuation bytes", {"C07": "panic:src/filter/html_filter_body.rs:58"}, ""),
 "C07-B": ("C07", "src/regex_radix_tree/prefix.rs", "get_prefix_with_char_size slices bytes with a char count", "two dynamic hosts in the same tree sharing a non-ASCII prefix whose char count, read as byte offset, falls inside a character (xé1@.. / xé2@..)", {"C07": "panic:src/regex_radix_tree/prefix.rs:77", "C08": "panic:src/regex_radix_tree/prefix.rs:77"},
           "first missed (no two non-ASCII dynamic hosts in one tree) -> third baseline rule + host alphabet extended, /éé/ patterns added to C08; a panic of the subject inside an explorer is now a violation instead of a crash"),
 "C08-A": ("C08", "src/regex_radix_tree/{item,tree,node}.rs", "Node::retain returns Item::default() (= Empty(false)) when nothing is left", "ignore_case tree whose root is a node, one retain removing everything, later inserts, case-differing lookup", {"C08": "find-missing:main:pattern=/A/(?:[a-z]+)"}, ""),
 "C08-B": ("C08", "src/regex_radix_tree/prefix.rs", "the common prefix may end right after a backslash", "two patterns that first differ on the character directly after a top-level backslash (/a\\.b vs /a\\-b)", {"C08": "find-missing:edge:pattern=/a\\-b/(?:.+?)"}, "first missed (patterns only diverged one character later) -> 'edge' pattern set added"),
 "C09-A": ("C09", "src/api/rule.rs", "the rule side no longer re-encodes '+' of the sorted query to %2B", "a query with an encoded plus (%2B)", {"C09": "self-match:...:ignore_marketing=..."}, "first missed -> parameter h=1%2B2 added"),
 "C09-B": ("C09", "src/http/query.rs", "request side keeps the FIRST value of a repeated key (rule side keeps the last)", "a repeated key with different values", {"C09": "self-match:duplicate-key:..."}, ""),
 "C10-A": ("C10", "src/marker/mod.rs", "markers substituted shortest name first when building the pattern", "marker names that are prefixes of one another (a / ab)", {"C10": "accepted-instantiation-does-not-match:..."}, ""),
 "C10-B": ("C10", "src/action/mod.rs", "variables are not computed when the target is static", "a static target together with header / body filters referencing markers", {"C10": "header-filter-value / body-filter-value:...:static-target"}, "first missed -> static-target variant added"),
 "C11-A": ("C11", "src/api/rule.rs", "rank tie-break lower-cases one side only", "equal ranks and ids whose byte order flips under case folding (B / a)", {"C11": "match-order-changes-action"}, "first missed (all ids lower-case) -> mixed-case ids"),
 "C11-B": ("C11", "src/regex_radix_tree/node.rs", "Node::get / get_mut require the looked-up regex to be strictly longer than the node prefix", "two dynamic hosts where one regex is a strict prefix of the other, >=2 rules on the shorter one, a particular insertion order", {"C08": "get:main:pattern=/a/(?:[a-z]+)", "C01": "missed-rule:dyn host @h.example #3 other path"}, "a tree-level contract (get) that shows at router level as an insertion-order-dependent loss of rules: reported by C08 as built; C11's rules share one static path and do not reach it, so a host-focus universe (several rules per dynamic host, a host regex extending another, all insertion orders to depth 4) was added to C01, which now reports it too"),
 "C12-A": ("C12", "src/regex.rs", "LazyRegex::compile stores the un-anchored source: the SECOND warm-up of a capture regex drops the anchors", "Router::cache reaching the route stage twice and a lazy marker (.+?)", {"C12": "cached-router-answers-differ-from-never-cached"},
           "first missed: every clone shares its routes' capture regexes with its source, so all compared routers were warmed together -> a pristine, never-cloned baseline, a lazy-marker rule and double warm-ups were added"),
 "C12-B": ("C12", "src/regex_radix_tree/tree.rs", "cache() on an empty tree resets the root to Empty(false)", "case-insensitive config, cache while the tree is empty, later insert of a dynamic rule with an upper-case literal", {"C12": "warmed-state-differs-from-uncached"}, ""),
 "C13-A": ("C13", "src/filter/header_action/header_remove.rs", "remove compares case-insensitively on one side only", "filter name with an upper-case letter, header spelled differently", {"C13": "filter-header-action:remove"}, ""),
 "C13-B": ("C13", "src/filter/filter_header.rs", "one unknown action disables every header filter", "a sequence mixing an unknown and a known filter", {"C13": "action-filter-headers:*"}, ""),
 "C14-A": ("C14", "src/filter/encoding/decode.rs", "deflate decoder uses write() instead of write_all(): at most 32 KiB inflated per call", "Content-Encoding deflate and one compressed chunk inflating to more than 32 KiB", {"C14": "output-not-a-complete-stream:deflate / decoded-output-differs"}, "needs the >64 KiB body added after the first seeding round"),
 "C14-B": ("C14", "src/filter/filter_body.rs", "the Content-Encoding value is no longer lower-cased", "GZIP / Deflate / BR spellings", {"C14": "decoded-output-differs-from-plain-filtering:gzip:*"}, ""),
 "C15-A": ("C15", "src/filter/html_body_action/body_append.rs", "append_child buffers the element when css_selector is Some(\"\")", "append_child with an empty-string selector", {"C15": "append_child:sel=Empty:*"}, "first missed -> empty selector added"),
 "C15-B": ("C15", "src/filter/html_filter_body.rs", "text containing '<' inside a buffered element is written to the output instead of the buffer", "replace / selector filters on an element containing a script or text with '<'", {"C15": "append_child:sel=Nothing:*"}, ""),
 "C16-A": ("C16", "src/html/mod.rs", "an unquoted attribute value ends on any byte that is_whitespace() as a char (0xA0, 0x85)", "unquoted attribute value containing à / NBSP, and a caller reading attributes", {"C16": "accessor-error:sweep=tokens"}, "first missed -> tokens '<a b=', 'à', NBSP added"),
 "C16-B": ("C16", "src/html/mod.rs", "raw-text tag detection matches by prefix: <script\\xff> makes next() return Err", "a tag name that extends a raw-text name with an invalid byte", {"C16": "next-returned-error:sweep=tokens"}, "first missed -> tokens '<script', '<style' added and an Err from next() is always a violation (the debug-only subtraction overflow is outside the release profile)"),
 "C17-A": ("C17", "src/router/request_matcher/header.rs", "HeaderMatcher::trace caches a condition's result even when it was not executed", "two header groups sharing a condition, the first group failing on an earlier condition", {"C17": "trace-misses-rule:Y is_defined"}, "first missed -> single-condition 'Y is_defined' rule added to the universe"),
 "C17-B": ("C17", "src/router/trace.rs", "routes extracted from a trace are de-duplicated only when adjacent", "two rules stored under the same two matching ip ranges", {"C17": "trace-last-action (order-dependent)"}, "manifests depending on the library's hash-map iteration order: the first run ended in a machinery error (replay did not reproduce) -> replays are retried and the violation is marked order-dependent"),
 "C18-A": ("C18", "src/action/ffi.rs", "body_filter_filter(NULL, buf) returns the caller's buffer instead of a duplicate", "the NULL-filter path followed by releasing both buffers", {"C18": "value:body_filter_filter(NULL)-returns-the-callers-buffer"}, "first run: the double free corrupted the harness (SIGSEGV) -> aliasing is checked before anything is released"),
 "C18-B": ("C18", "src/ffi_helpers.rs", "string_to_c_char returns NULL for an empty string", "a header with an empty value handed back to the caller", {"C18": "value:header_filter_filter-differs-from-native"}, "first missed: the harness mapped NULL to \"\" -> NULL is now visible"),
 "C19-A": ("C19", "src/api/redirection_loop.rs", "the (URL, method) repeat test runs before the method is reset to GET after a 301/302", "a non-GET example whose redirect returns to an already visited URL", {"C19": "loop:differs-from-independent-follower:hops"}, "first missed -> independent follower on the live pipeline and POST examples added"),
 "C19-B": ("C19", "src/api/impact.rs", "project impact does not remove the earlier draft of a rule being added", "action add with the rule id already in change_set.added and the two versions in different matcher buckets", {"C19": "impact:project-differs-from-standalone:*"}, "first missed -> impact on the other version of an added rule, versions in different buckets"),
}
def main():
    rows = []
    for sid, (prop, files, what, needs, caught, note) in sorted(S.items()):
        d = os.path.join(ROOT, "seeded", sid)
        if not os.path.isdir(d):
            continue
        meta = {
            "seed": sid, "breaks_property": prop, "files_changed": files, "change": what, "needs_to_manifest": needs,
            "confirmed_by": {
                "how": "tools/confirm_seed.sh (in the seeding agent's scratch worktree of /repo HEAD): patch applied, `cargo test --workspace --no-fail-fast --offline` = 549 passed 0 failed; demo.rs as an integration test FAILS with the patch and PASSES without it",
                "suite_with_change": "549 passed, 0 failed", "demo_with_change": "fails", "demo_without_change": "passes",
            },
            "checks_run": "tools/try_seed.sh seeded/%s/patch.diff <check(s)> quick  (git -C /repo apply, ./check, git -C /repo checkout -- .)" % sid,
            "reported_by": caught, "history": note,
            "written_by": "independent sub-agent given only the property text and a scratch worktree",
        }
        json.dump(meta, open(os.path.join(d, "meta.json"), "w"), indent=1, ensure_ascii=False)
        rows.append("| %s | %s | %s | %s | %s |" % (sid, files, what, "; ".join("%s: `%s`" % kv for kv in caught.items()), note or "caught as built"))
    print("| seed | file | change | reported by (quick tier) | history |\n|---|---|---|---|---|")
    print("\n".join(rows))
if __name__ == "__main__":
    main()
