#!/usr/bin/env python3
"""Regenerates harness/src/props/mod.rs from the cNN.rs files present."""
import os, re
d = os.path.join(os.path.dirname(os.path.dirname(os.path.abspath(__file__))), "harness/src/props")
mods = sorted(f[:-3] for f in os.listdir(d) if re.fullmatch(r"c\d\d\.rs", f))
special_replay = {"c08": 'c08::replay("C08", case)', "c12": 'c12::replay(case)'}
out = "".join(f"pub mod {m};\n" for m in mods)
out += "\nuse crate::common::Tier;\nuse serde_json::Value;\n\n"
out += "pub fn run(prop: &str, tier: Tier) -> i32 {\n    crate::common::quiet_panics();\n    match prop {\n"
for m in mods:
    out += f'        "{m.upper()}" => {m}::run(tier),\n'
out += '        _ => {\n            eprintln!("unknown property {prop}");\n            2\n        }\n    }\n}\n\n'
out += "pub fn replay(prop: &str, case: &Value) -> Vec<String> {\n    crate::common::quiet_panics();\n    match prop {\n"
for m in mods:
    out += f'        "{m.upper()}" => {special_replay.get(m, m + "::replay(case)")},\n'
out += "        _ => vec![],\n    }\n}\n"
open(os.path.join(d, "mod.rs"), "w").write(out)
