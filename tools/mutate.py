#!/usr/bin/env python3
"""Mutation sweep of /repo against the quick checks (a self-test of the machinery, not a check).

  tools/mutate.py gen  [--files glob ...]                 -> prints the mutant list (one JSON per line)
  tools/mutate.py run  --scratch DIR [--shard i/n] [--limit N] [--only-files substr,...] [--threads T]
                                                           -> executes mutants, appends to DIR/results.tsv

Every mutant is ONE small syntactic change in non-test code of /repo/src (operator flip, boundary shift,
dropped statement, dropped negation, dropped lower-casing ...). It is applied to a scratch git worktree of
/repo HEAD (never to /repo); a scratch copy of the harness is rebuilt against it and the quick checks are run
in an order that puts the checks anchored in the mutated file first; the first check that exits 1 "kills"
the mutant. A mutant no check kills is then run against the repository's own suite: if the suite fails it
is not a realistic change (the suite already guards it); if the suite passes it is a SURVIVOR and is listed
for manual review (equivalent mutant, behaviour outside every listed property, or a gap to close).
"""
import sys, os, re, json, subprocess, time, glob, hashlib, shutil

VERIF = os.path.dirname(os.path.dirname(os.path.abspath(__file__)))
REPO = "/repo"

ALL = ["C%02d" % i for i in range(1, 20)]
# which checks are anchored in which part of the tree (run first); the rest follow
ORDER = [
    ("src/regex_radix_tree/", ["C08", "C12", "C02", "C01", "C17"]),
    ("src/regex.rs", ["C08", "C12", "C01", "C10"]),
    ("src/router/trace.rs", ["C17", "C19"]),
    ("src/router/request_matcher/", ["C01", "C02", "C17", "C12"]),
    ("src/router/", ["C01", "C02", "C17", "C12", "C10", "C11"]),
    ("src/filter/header", ["C13", "C05"]),
    ("src/filter/filter_header", ["C13", "C05"]),
    ("src/filter/encoding", ["C14", "C04", "C07"]),
    ("src/filter/buffer", ["C18", "C07"]),
    ("src/filter/", ["C03", "C04", "C15", "C14", "C05", "C10"]),
    ("src/html/", ["C16", "C03", "C15", "C04"]),
    ("src/action/ffi", ["C18", "C07"]),
    ("src/action/trace", ["C17", "C19"]),
    ("src/action/", ["C05", "C06", "C11", "C10", "C17", "C19", "C13"]),
    ("src/api/ffi", ["C18", "C07"]),
    ("src/api/", ["C19", "C10", "C09", "C05", "C06", "C01", "C07", "C11"]),
    ("src/http/ffi", ["C18", "C07"]),
    ("src/http/", ["C09", "C06", "C01", "C10", "C18", "C07"]),
    ("src/marker/", ["C10", "C12", "C01", "C07"]),
    ("src/ffi_helpers", ["C18", "C07"]),
    ("src/router_config", ["C09", "C01"]),
]


def check_order(path):
    for prefix, first in ORDER:
        if path.startswith(prefix):
            return first + [c for c in ALL if c not in first]
    return ALL


def strip_tests(lines):
    """indices of lines that belong to #[cfg(test)] modules or to `verif` hook code (not mutated)."""
    skip = set()
    i = 0
    n = len(lines)
    while i < n:
        l = lines[i]
        if re.search(r"#\[cfg\((test|feature = \"verif\")\)\]", l):
            # skip the following item: up to the matching closing brace of the first '{' found
            j = i
            depth = 0
            started = False
            while j < n:
                for ch in lines[j]:
                    if ch == "{":
                        depth += 1
                        started = True
                    elif ch == "}":
                        depth -= 1
                skip.add(j)
                if started and depth <= 0:
                    break
                if not started and lines[j].rstrip().endswith(";") and j > i:
                    break
                j += 1
            i = j + 1
        else:
            i += 1
    return skip


OPS = [
    # (name, regex, replacement-function)
    ("eq->ne", re.compile(r" == "), lambda m: " != "),
    ("ne->eq", re.compile(r" != "), lambda m: " == "),
    ("lt->le", re.compile(r" < "), lambda m: " <= "),
    ("le->lt", re.compile(r" <= "), lambda m: " < "),
    ("gt->ge", re.compile(r" > "), lambda m: " >= "),
    ("ge->gt", re.compile(r" >= "), lambda m: " > "),
    ("and->or", re.compile(r" && "), lambda m: " || "),
    ("or->and", re.compile(r" \|\| "), lambda m: " && "),
    ("plus1->plus0", re.compile(r" \+ 1\b"), lambda m: " + 0"),
    ("minus1->minus0", re.compile(r" - 1\b"), lambda m: " - 0"),
    ("pluseq->minuseq", re.compile(r" \+= 1\b"), lambda m: " += 2"),
    ("true->false", re.compile(r"\btrue\b"), lambda m: "false"),
    ("false->true", re.compile(r"\bfalse\b"), lambda m: "true"),
    ("drop-not", re.compile(r"(\bif |\bwhile |&& |\|\| |\(|= )!(?=[a-z_(])"), lambda m: m.group(1)),
    ("some<->none", re.compile(r"\.is_some\(\)"), lambda m: ".is_none()"),
    ("none<->some", re.compile(r"\.is_none\(\)"), lambda m: ".is_some()"),
    ("empty->nonempty", re.compile(r"(\b[\w\.]+)\.is_empty\(\)"), lambda m: "!" + m.group(1) + ".is_empty()"),
    ("drop-lowercase", re.compile(r"\.to_lowercase\(\)"), lambda m: ".to_string()"),
    ("drop-ascii-lowercase", re.compile(r"\.to_ascii_lowercase\(\)"), lambda m: ".to_owned()"),
    ("break->continue", re.compile(r"\bbreak;"), lambda m: "continue;"),
    ("continue->break", re.compile(r"\bcontinue;"), lambda m: "break;"),
    ("0->1", re.compile(r"(?<![\w\.])0(?![\w\.])"), lambda m: "1"),
    ("1->2", re.compile(r"(?<![\w\.\-] )(?<![\w\.])1(?![\w\.])"), lambda m: "2"),
]

STMT_DROP = re.compile(
    r"^\s*(self\.|[a-z_][\w\.]*\.)?[a-z_][\w\.\[\]]*(\.(push|push_str|insert|remove|extend|clear|sort|sort_by|sort_by_key|dedup|retain|truncate|append|reverse|pop|drain|take)\(.*\);|\s(\+=|-=|=)\s.*;)\s*$"
)


def eligible(line):
    s = line.strip()
    if not s or s.startswith("//") or s.startswith("#[") or s.startswith("use ") or s.startswith("pub use "):
        return False
    if re.match(r"^(pub(\(crate\))? )?(fn|struct|enum|impl|trait|type|mod|const|static)\b", s):
        return False
    if "log::" in s or "error!(" in s or "debug!(" in s or "warn!(" in s or "trace!(" in s or "info!(" in s:
        return False
    if "=>" in s and re.search(r"=>\s*\{?\s*$", s):
        return False
    return True


def gen(file_filter=None):
    muts = []
    files = sorted(glob.glob(REPO + "/src/**/*.rs", recursive=True))
    for f in files:
        rel = os.path.relpath(f, REPO)
        if rel.startswith("src/bin/") or rel == "src/build.rs" or rel.endswith("wasm_api.rs") or "dot" in os.path.basename(rel):
            continue
        if file_filter and not any(x in rel for x in file_filter):
            continue
        lines = open(f).read().split("\n")
        skip = strip_tests(lines)
        for i, line in enumerate(lines):
            if i in skip or not eligible(line):
                continue
            code = line.split("//")[0] if "//" in line and '"' not in line else line
            for name, rx, fn in OPS:
                # do not touch generics / arrows / string contents too eagerly
                for k, m in enumerate(rx.finditer(code)):
                    if name in ("lt->le", "gt->ge") and ("->" in code[max(0, m.start() - 2): m.end() + 1] or "<" in code and ">" in code and "::<" in code):
                        continue
                    if name in ("0->1", "1->2"):
                        # only numeric literals in arithmetic / comparison / slicing context
                        ctx = code[max(0, m.start() - 3): m.end() + 3]
                        if not re.search(r"[\+\-<>=\[\.]\s*[01]|[01]\s*[\+\-<>=\]\.]|\.\.", ctx):
                            continue
                        if '"' in code and code.count('"') >= 2 and code.index('"') < m.start() < code.rindex('"'):
                            continue
                    if '"' in code:
                        # skip matches inside a string literal
                        pre = code[: m.start()]
                        if pre.count('"') % 2 == 1:
                            continue
                    new = code[: m.start()] + fn(m) + code[m.end():] + line[len(code):]
                    if new != line:
                        muts.append({"file": rel, "line": i + 1, "op": name, "k": k, "before": line.strip(), "after": new.strip(), "new_line": new})
            if STMT_DROP.match(line) and not line.strip().startswith("let "):
                muts.append({"file": rel, "line": i + 1, "op": "drop-stmt", "k": 0, "before": line.strip(), "after": "// (dropped)", "new_line": re.match(r"^\s*", line).group(0) + "// mutant: statement dropped"})
    for m in muts:
        m["id"] = hashlib.sha1(f"{m['file']}:{m['line']}:{m['op']}:{m['k']}".encode()).hexdigest()[:10]
    return muts


def sh(cmd, cwd=None, env=None, timeout=None):
    try:
        p = subprocess.run(cmd, cwd=cwd, env=env, shell=isinstance(cmd, str), stdout=subprocess.PIPE, stderr=subprocess.STDOUT, timeout=timeout)
        return p.returncode, p.stdout.decode("utf-8", "replace")
    except subprocess.TimeoutExpired as e:
        return 124, (e.stdout or b"").decode("utf-8", "replace")


def setup(scratch):
    os.makedirs(scratch, exist_ok=True)
    repo = scratch + "/repo"
    if not os.path.isdir(repo):
        rc, out = sh(["git", "-C", REPO, "worktree", "add", "-q", "--detach", repo, "HEAD"])
        if rc != 0:
            print(out)
            sys.exit(2)
    head = subprocess.check_output(["git", "-C", REPO, "rev-parse", "HEAD"]).decode().strip()
    sh(["git", "-C", repo, "checkout", "-q", "--detach", head])
    sh(["git", "-C", repo, "checkout", "-q", "--", "."])
    os.makedirs(scratch + "/verif", exist_ok=True)
    sh(["rsync", "-a", "--delete", "--exclude", "target", VERIF + "/harness/", scratch + "/verif/harness/"])
    ct = scratch + "/verif/harness/Cargo.toml"
    s = open(ct).read().replace('path = "/repo"', f'path = "{repo}"')
    open(ct, "w").write(s)
    for f in ("check", "known_findings.json"):
        shutil.copy(VERIF + "/" + f, scratch + "/verif/" + f)
    os.makedirs(scratch + "/verif/evidence", exist_ok=True)
    os.makedirs(scratch + "/verif/replays", exist_ok=True)
    return repo


def run(args):
    scratch = args["scratch"]
    repo = setup(scratch)
    env = dict(os.environ, PUBLISH_SKIP_BUILD="1", CARGO_NET_OFFLINE="true", VERIF_ROOT=scratch + "/verif")
    if args.get("threads"):
        env["VERIF_THREADS"] = str(args["threads"])
        env["CARGO_BUILD_JOBS"] = str(args["threads"])
    muts = gen(args.get("only_files"))
    # deterministic order that spreads over files: sort by id
    muts.sort(key=lambda m: m["id"])
    if args.get("shard"):
        i, n = [int(x) for x in args["shard"].split("/")]
        muts = [m for k, m in enumerate(muts) if k % n == i]
    done = set()
    res_path = scratch + "/results.tsv"
    for p in [res_path, VERIF + "/seeded/mutation_results.tsv"]:
        if os.path.exists(p):
            for l in open(p):
                done.add(l.split("\t")[0])
    muts = [m for m in muts if m["id"] not in done]
    if args.get("limit"):
        muts = muts[: int(args["limit"])]
    print(f"{len(muts)} mutants to run", flush=True)
    hdir = scratch + "/verif/harness"
    for m in muts:
        t0 = time.time()
        path = repo + "/" + m["file"]
        orig = open(path).read()
        lines = orig.split("\n")
        lines[m["line"] - 1] = m["new_line"]
        open(path, "w").write("\n".join(lines))
        status, by, detail = "?", "", ""
        try:
            rc, out = sh("cargo build --release --offline 2>&1 | tail -30", cwd=hdir, env=env, timeout=1200)
            if "error" in out and ("could not compile" in out or "error[" in out or "error:" in out):
                status = "nobuild"
            else:
                status = "survived-checks"
                for c in check_order(m["file"]):
                    binp = hdir + "/target/release/" + ("ffi_audit" if c == "C18" else "mc")
                    rc, out = sh([binp, c, "quick"], cwd=scratch + "/verif", env=env, timeout=900)
                    if rc == 1:
                        status, by = "killed", c
                        sig = re.findall(r"^  signature: (.*)$", out, re.M)
                        detail = (sig[0] if sig else "")[:100]
                        break
                    if rc == 124:
                        status, by = "HANG", c
                        break
                    if rc != 0:
                        status, by = "MACHINERY", c
                        detail = " ".join(re.findall(r"MACHINERY-ERROR.*", out)[:1])[:160]
                        break
                if status == "survived-checks":
                    rc, out = sh("cargo test --workspace --no-fail-fast --offline 2>&1 | grep -E '^test result|panicked|error' | head -20", cwd=repo, env=env, timeout=1800)
                    failed = sum(int(x) for x in re.findall(r"(\d+) failed", out))
                    passed = sum(int(x) for x in re.findall(r"(\d+) passed", out))
                    if passed < 500 and failed == 0:
                        status, detail = "suite-broken", out[:100].replace("\n", " ")
                    elif failed > 0:
                        status, detail = "suite-kills", f"{failed} failed"
                    else:
                        status = "SURVIVOR"
        finally:
            open(path, "w").write(orig)
        line = "\t".join([m["id"], status, by, f"{m['file']}:{m['line']}", m["op"], m["before"][:110], "=>", m["after"][:110], detail, f"{time.time() - t0:.0f}s"])
        print(line, flush=True)
        with open(res_path, "a") as f:
            f.write(line + "\n")


if __name__ == "__main__":
    a = sys.argv[1:]
    if not a:
        print(__doc__)
        sys.exit(0)
    if a[0] == "gen":
        ff = a[2:] if len(a) > 2 and a[1] == "--files" else None
        ms = gen(ff)
        for m in ms:
            print(json.dumps({k: m[k] for k in ("id", "file", "line", "op", "before", "after")}))
        print(f"# {len(ms)} mutants", file=sys.stderr)
    elif a[0] == "diff":
        # tools/mutate.py diff <mutant id>  -> a patch (git apply) for that mutant on stdout
        ms = [m for m in gen() if m["id"] == a[1]]
        if not ms:
            print("no such mutant", file=sys.stderr)
            sys.exit(1)
        m = ms[0]
        path = REPO + "/" + m["file"]
        lines = open(path).read().split("\n")
        import difflib
        new = list(lines)
        new[m["line"] - 1] = m["new_line"]
        sys.stdout.write("".join(difflib.unified_diff([l + "\n" for l in lines], [l + "\n" for l in new], "a/" + m["file"], "b/" + m["file"], n=3)))
    elif a[0] == "run":
        args = {}
        i = 1
        while i < len(a):
            if a[i] == "--scratch":
                args["scratch"] = a[i + 1]
            elif a[i] == "--shard":
                args["shard"] = a[i + 1]
            elif a[i] == "--limit":
                args["limit"] = a[i + 1]
            elif a[i] == "--only-files":
                args["only_files"] = a[i + 1].split(",")
            elif a[i] == "--threads":
                args["threads"] = int(a[i + 1])
            i += 2
        run(args)
