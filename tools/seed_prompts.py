#!/usr/bin/env python3
"""usage: tools/seed_prompts.py <round-dir> <letter1> <letter2>
Writes one prompt per property to <round-dir>/prompts/<Cxx>.txt for a fresh seeding sub-agent. A prompt holds
only the property's text, the agent's scratch worktree and the list of source sites earlier rounds already
used (so that the new changes are different ones) - nothing about the checks in /verif."""
import json, os, re, sys
ROOT = os.path.dirname(os.path.dirname(os.path.abspath(__file__)))
rd, l1, l2 = sys.argv[1], sys.argv[2], sys.argv[3]
src = open(os.path.join(ROOT, "tools", "seeds_meta.py")).read()
ns = {"__file__": os.path.join(ROOT, "tools", "seeds_meta.py")}
# evaluate only the S table (everything before the first function / main part)
cut = src.find("\ndef ")
exec(src[:cut] if cut > 0 else src, ns)
S = ns["S"]
os.makedirs(os.path.join(rd, "prompts"), exist_ok=True)
for line in open(os.path.join(ROOT, "properties.jsonl")):
    p = json.loads(line)
    pid = p["id"]
    sites = sorted({(v[1], v[2]) for k, v in S.items() if v[0] == pid})
    used = "\n".join(f"  - {f}: {w}" for f, w in sites)
    wt = f"/tmp/wt-{pid}"
    out = f"{rd}-{pid}"
    txt = f"""You are helping to evaluate a verification effort for the Rust library redirectionio/libredirectionio. Your job is to
write two *realistic, subtle, property-breaking changes* to the library, independently of whoever checks the property.

Your scratch git worktree of the library is {wt} (work ONLY there; never touch /repo or /verif; never use `git stash`
- the stash is shared between worktrees; do not commit). Build and test offline:
  cd {wt} && PUBLISH_SKIP_BUILD=1 CARGO_NET_OFFLINE=true CARGO_BUILD_JOBS=4 cargo test --offline --lib --test redirectionio_router_test --test redirectionio_test_examples
(549 tests must pass; the first build takes a few minutes.)

THE PROPERTY ({pid}): {p['title']}
{p['statement']}
Formally: {p['quantifier']['text']}
Code it is anchored in: {', '.join(p['anchors']['files'])}

WHAT TO PRODUCE: two different changes, called {l1} and {l2}. Each change
  * is a small edit of the library's non-test source (src/...) that looks like something a maintainer could plausibly write
    (a refactoring, an optimisation, a "simplification", a cache, a limit, a new fast path) - not sabotage that review would spot at once;
  * still compiles, and the 549 existing tests still pass with it (run them and report the counts);
  * breaks the property above for real, but only under SPECIFIC circumstances: a particular multi-step sequence of operations,
    state carried between calls or between objects, a size or count threshold, the interaction of two flags or two rule features,
    a less common but legal input form, a rarely used entry point, or two cooperating sites that each look fine alone.
    It must NOT be something ordinary use exposes at once, and a careful checker enumerating the obvious small cases should
    still be unlikely to meet it;
  * comes with a demonstration: ONE Rust integration-test file (it will be copied to tests/seeded_demo_x.rs of the worktree and
    run with `cargo test --offline --test seeded_demo_x`) using only the library's public API and its existing dependencies,
    which FAILS with the change applied and PASSES on the unchanged tree. Verify both yourself.
Earlier rounds already used the following sites for this property - choose different mechanisms and, where possible, different functions:
{used}

DELIVERABLES (write exactly these files; create the directories):
  {out}/{l1}/patch.diff   (output of `git diff` in the worktree with only change {l1} applied; must apply with `git apply` to a clean tree)
  {out}/{l1}/demo.rs      (the demonstration)
  {out}/{l1}/NOTES.md     (the change; which part of the property breaks; exactly what is needed for it to manifest; commands you ran and their results)
  {out}/{l2}/patch.diff, {out}/{l2}/demo.rs, {out}/{l2}/NOTES.md  (same for change {l2})
The two patches are independent (each applies to the clean tree on its own). Leave the worktree clean when you finish
(`git checkout -- . && rm -f tests/seeded_demo_*.rs`) but keep its target/ directory.
If, while reading the code, you notice behaviour of the UNCHANGED tree that already violates the property, add a short
section "Remarks on the unchanged tree" to NOTES.md of change {l1} with the concrete input.
Final answer: for each change one paragraph (file, what, what it needs to manifest) and the test counts you observed.
"""
    open(os.path.join(rd, "prompts", pid + ".txt"), "w").write(txt)
print("ok")
