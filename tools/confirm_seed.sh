#!/bin/bash
# usage: tools/confirm_seed.sh <Cxx> <A|B>
# Confirms, in the scratch worktree /tmp/wt-<Cxx>, that the seeded change (i) compiles and passes the
# repository's suite, (ii) makes its demonstration fail, (iii) the demonstration passes without it.
set -u
ID="$1"; V="$2"
WT=/tmp/wt-$ID; SD=${SEEDROOT:-/tmp/seeded}-$ID/$V
export PUBLISH_SKIP_BUILD=1 CARGO_NET_OFFLINE=true
cd "$WT" || exit 2
git checkout -q -- . ; rm -f tests/seeded_demo_*.rs
if ! git apply --check "$SD/patch.diff"; then echo "RESULT $ID/$V patch-does-not-apply"; exit 1; fi
if git diff --quiet HEAD -- ; then :; fi
git apply "$SD/patch.diff"
files=$(git diff --name-only | tr '\n' ' ')
cp "$SD/demo.rs" tests/seeded_demo_x.rs
suite=$(cargo test --workspace --no-fail-fast --offline -- --skip seeded 2>&1 | grep -E "^test result" )
# the suite run above includes the demo target; count only the three original targets
orig_fail=$(cargo test --offline --lib --test redirectionio_router_test --test redirectionio_test_examples 2>&1 | grep -E "^test result" | awk '{p+=$4; f+=$6} END {print p" passed "f" failed"}')
with=$(cargo test --offline --test seeded_demo_x 2>&1 | grep -E "^test result" | head -1)
git checkout -q -- src
without=$(cargo test --offline --test seeded_demo_x 2>&1 | grep -E "^test result" | head -1)
rm -f tests/seeded_demo_x.rs; git checkout -q -- .
echo "RESULT $ID/$V files: $files | suite with change: $orig_fail | demo with change: $with | demo without: $without"
