#!/usr/bin/env python3
"""Prints the 'measured on the last run' table of DESIGN.md 8.2 from /verif/evidence/*.json."""
import json, glob, os
ROOT = os.path.dirname(os.path.dirname(os.path.abspath(__file__)))
print("| id | tier | evaluations | states / transitions | distinct non-trivial | exhaustive | wall s (this machine, possibly loaded) |")
print("|---|---|---|---|---|---|---|")
for f in sorted(glob.glob(ROOT + "/evidence/C*.json")):
    e = json.load(open(f)); c = e["coverage"]
    st = f"{c.get('states','-')} / {c.get('transitions','-')}" if 'states' in c else "-"
    print(f"| {e['property_id']} | {e['tier']} | {c.get('evaluations','-')} | {st} | {c.get('distinct_nontrivial','-')} | {c.get('exhaustive','-')} | {e['wall_s']} |")
