#!/usr/bin/env python3
"""Regenerates /verif/MANIFEST.json from the table below (single source of truth for the interface)."""
import json, os, sys

ROOT = os.path.dirname(os.path.dirname(os.path.abspath(__file__)))

CHECKS = {}

def check(pid, category, technique, text, note, design_ref, engine):
    CHECKS[pid] = {
        "property_id": pid,
        "quick_cmd": f"./check {pid} quick",
        "thorough_cmd": f"./check {pid} thorough",
        "evidence_file": f"/verif/evidence/{pid}.json",
        "replay_cmd_template": "./check replay {path}",
        "engine": engine,
        "level_claimed": {"category": category, "text": text, "design_ref": design_ref},
        "level_note": note,
        "technique": technique,
    }

check("C08", "model_checking",
      "explicit-state BFS over operation histories of the real regex tree (state = real object keyed by structural snapshot + reference map), linear-scan oracle at every state",
      "Every history of <=4 (quick) / <=5-7 (thorough) operations over insert/remove/retain/cache on a collision-rich pattern alphabet is executed on the real RegexTreeMap and UniqueRegexTreeMap, both case modes; at every reachable state find/len/is_empty/get/iter are compared with a linear scan using independently built anchored regexes, and every remove return value with the reference map. Exhaustive inside the bound, so all insertion orders and removal subsets of the small pattern sets are covered.",
      "Trusts the regex crate as matching oracle; coverage is the pattern/haystack alphabets and the history depth; state merging by 128-bit fingerprint of the canonical snapshot.",
      "DESIGN.md 3.2, 4 (C08)", "E2 tree-state explorer")

ALL = [f"C{n:02d}" for n in range(1, 20)]

NOT_BUILT_REASON = "check not built yet in this round (planned, see DESIGN.md section 0); not claimed until its explorer exists and has been shown to detect a seeded change"

def main():
    manifest = {
        "version": 1,
        "setup_cmd": "./check build",
        "hooks": {
            "guard": "cargo feature `verif` of the redirectionio crate (#[cfg(feature = \"verif\")])",
            "enable": "the harness crate /verif/harness depends on redirectionio by path (/repo) with features = [\"verif\"]; ./check rebuilds it from /repo's working tree (PUBLISH_SKIP_BUILD=1 so build.rs does not regenerate files in /repo)",
            "baseline_off_cmd": "cd /repo && cargo test --workspace --no-fail-fast --offline",
            "source_commits": ["e1a85fb"],
            "add_only": True,
        },
        "engines": [
            {"name": "E-bfs", "path": "harness/src/engines/bfs.rs", "serves_properties": ["C01", "C02", "C08", "C12", "C17"],
             "kind_free_text": "level-synchronous explicit-state BFS over the real implementation object; canonical state keys from the `verif` snapshot hooks"},
        ],
        "checks": [CHECKS[p] for p in ALL if p in CHECKS],
        "not_applicable": [{"property_id": p, "reason": NOT_BUILT_REASON} for p in ALL if p not in CHECKS],
        "notes": "All checks are bounded exhaustive explorations of the real code (see DESIGN.md). ./check <id> <tier> rebuilds the harness and /repo (feature verif) first. Known findings: known_findings.json.",
    }
    with open(os.path.join(ROOT, "MANIFEST.json"), "w") as f:
        json.dump(manifest, f, indent=1)
        f.write("\n")

if __name__ == "__main__":
    main()
