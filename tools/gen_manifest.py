#!/usr/bin/env python3
"""Regenerates /verif/MANIFEST.json from the table below (single source of truth for the interface)."""
import json, os, sys

ROOT = os.path.dirname(os.path.dirname(os.path.abspath(__file__)))

CHECKS = {}

def check(pid, category, technique, text, note, design_ref, engine):
    CHECKS[pid] = {
        "property_id": pid,
        "quick_cmd": f"./check {pid} quick",
        "thorough_cmd": f"./check {pid} thorough",
        "evidence_file": f"/verif/evidence/{pid}.json",
        "replay_cmd_template": "./check replay {path}" if pid != "C18" else "./check C18-replay {path}",
        "engine": engine,
        "level_claimed": {"category": category, "text": text, "design_ref": design_ref},
        "level_note": note,
        "technique": technique,
    }

check("C08", "model_checking",
      "explicit-state BFS over operation histories of the real regex tree (state = real object keyed by structural snapshot + reference map), linear-scan oracle at every state",
      "Every history of <=4 (quick) / <=5-7 (thorough) operations over insert/remove/retain/cache on collision-rich pattern alphabets (main: shared marker groups, escapes, case twins, multi-byte prefixes; class: parentheses inside character classes; edge: divergence directly after a backslash and inside a multi-byte prefix) is executed on the real RegexTreeMap and UniqueRegexTreeMap, both case modes; at every reachable state find/len/is_empty/get/iter are compared with a linear scan using independently built anchored regexes, and every remove return value with the reference map. Exhaustive inside the bound, so all insertion orders and removal subsets of the small pattern sets are covered.",
      "Trusts the regex crate as matching oracle; coverage is the pattern/haystack alphabets and the history depth; state merging by 128-bit fingerprint of the canonical snapshot.",
      "DESIGN.md 3.2, 4 (C08)", "E2 tree-state explorer")

check("C03", "model_checking",
      "explicit-state BFS over chunk schedules of the real filter chain (state = offset + emitted bytes + full Debug rendering of the filter), one-chunk differential oracle",
      "For every (body, filter list, response headers) of the corpus, EVERY partition of the body into consecutive chunks, empty chunks included, is covered by a breadth-first search over (offset, emitted bytes, complete filter state) that merges equal states; at every end-of-stream state the total output must equal the one-chunk run. The corpus contains every sequence of <=3 (quick) / <=4 (thorough) tokens of an 18-token markup grammar (malformed, truncated, multi-byte, scripts, comments with and without markup, raw-text elements) and 25 curated documents; 16 filter lists incl. three whose target is itself a raw-text element. State merging is re-validated on every run against an unmerged enumeration of all 2^(n-1) partitions of the short bodies.",
      "Bodies outside the corpus are not covered; compressed chains are C14. Open findings (lexical context lost across chunks inside script/textarea/title/comment/CDATA *content that contains markup-like text*) are listed in known_findings.json by cut-context signature; the same contexts without markup-like content have their own '-plain' signatures, which are never known.",
      "DESIGN.md 3.3, 4 (C03)", "E3 chunk-schedule explorer")

check("C04", "model_checking",
      "explicit-state BFS over chunk schedules x byte-fault positions on the real filter chain, byte-conservation relation at every end-of-stream state",
      "Same explorer as C03 (all partitions of every body), over well-formed, malformed, truncated-at-every-byte and non-UTF-8 bodies (one fault byte 0xFF/0x80/0xC3 inserted at every position of the curated documents) and over filter lists that are insert-only, replacing, empty, not buildable (unknown action, empty path, non-HTML content type, unsupported encoding) or not applicable. Every reachable final output must satisfy the statement's relation: pass-through byte-for-byte; insert-only => output minus sentinel values == input; replace => output minus values is the input minus '<...>' spans (decided by a DP).",
      "Sentinel values occur in no body (asserted). replace_text is outside the statement's cases. Coverage = corpus x fault alphabet x all partitions.",
      "DESIGN.md 3.3, 4 (C04)", "E3 chunk-schedule explorer + byte faults")

check("C13", "exploration",
      "exhaustive product enumeration (header lists x filter sequences) against a reference fold",
      "Full product of all header lists of length <=3 over names {X,x,Y} x values {a,''} (259) with all filter sequences of length <=3 (quick) / <=4 (thorough) over {add, remove, replace, override, default, bogus} x names {X,x,Y,Z}; FilterHeaderAction::filter and Action::filter_headers are both compared, as ordered lists, with a fold of five 5-line reference operations.",
      "Names/values outside the alphabet and longer sequences are not covered.",
      "DESIGN.md 3.4, 4 (C13)", "E4 product enumerator")

check("C16", "exploration",
      "exhaustive enumeration of all byte strings / token sequences up to a length, span-accounting oracle",
      "Every byte string of length <=7 (quick) / <=8 (thorough) over a 12-byte markup alphabet, every sequence of <=4 / <=5 tokens over a 32-token alphabet (script/escaped/double-escaped states, raw-text elements and partial raw-text tag names, CDATA, doctype, quoted and unquoted attributes, bytes 0xA0/0x85 inside characters, non-UTF-8, NUL) and the byte sweep inside each of 11 fragment contexts is tokenised to the end: termination within |input|+1 tokens, no empty token, no panic, next() never returns Err, raw spans + remainder == input, and every accessor Ok on valid UTF-8.",
      "Release profile only (the script states recurse per byte in debug builds). Longer inputs are not covered.",
      "DESIGN.md 3.4, 4 (C16)", "E4 product enumerator")

check("C01", "model_checking",
      "explicit-state BFS over insert histories of the real Router (state keyed by the canonical snapshot of all matcher layers), flat-predicate oracle on deviation-bounded probe sets",
      "Routers are built by every insert history of depth 1 over the full star-and-pairs trigger universe (base rule, every single-trigger deviation, every cross-dimension pair, six all-dimension rules: ~900 rules) and depth 2 (quick) / 3 (thorough) over a ~90-rule sub-universe, under 4 (quick) / 16 (thorough) flag configurations. At every state, for every live rule, its all-satisfying request and every request differing from it in <=2 (<=1 at the deeper levels) trigger dimensions are matched; the multiset of returned ids must be exactly the rules whose per-trigger reference predicate holds, with the any-host policy applied per scheme scope. Missed, spurious and duplicate rules are separate violations. A third exploration covers every insertion order (depth 4, thorough 5) of a host-focus universe (several rules on one dynamic host, a host regex extending another, literal and any-host rules). A panic of the router is reported as a violation (panic:<file:line>).",
      "Reference predicate validated against the implementation over 127M evaluations in round 0. ASCII paths only (C09 covers normalisation). Pairs the statement leaves open (not_in_range x no client address) are not asserted.",
      "DESIGN.md 3.1, 3.1.1", "E1 router-state explorer")

check("C02", "model_checking",
      "explicit-state BFS over histories of insert/remove/batch_remove/change-set/cache on the real Router, rebuild-from-scratch differential + flat-predicate oracle, parent-isolation check on every transition",
      "Every history of <=5 (quick) / <=6 (thorough) operations over a 9-variant universe in which variants share ids (static<->dynamic path, bucket moves, shared tree nodes, rule in four buckets at once, dynamic hosts). Children are always derived by clone-then-mutate from an Arc-shared parent (change-sets through RuleChangeSet::update_existing_router), and after every transition the parent's canonical snapshot must be unchanged. At every state: answers == router rebuilt from the live rules == reference predicate on probes around every rule ever inserted (so removed rules are probed too), len == |live|, get_route_by_id, and remove returns Some(rule) iff the id was live.",
      "Ids are inserted only when not live (the property's precondition).",
      "DESIGN.md 3.1.2", "E1 router-state explorer")

check("C12", "model_checking",
      "explicit-state BFS over tree and router histories with cache operations interleaved; at every state the full (limit, level) grid / every limit 0..N+1 is applied to a clone and observations compared",
      "Tree half: at every state of the tree explorer (histories <=3/<=4 incl. cache operations) every (limit in {0,1,2,3,8}, level in {None,0..3}) is applied to a clone, once and twice, and find() on every haystack must be unchanged. Router half: at every state of the history explorer (<=3/<=4 operations incl. cache(None|1|2) interleaved with updates) match ids, captures of every matched route and the canonicalised trace are compared between the router and its clone after cache(n) for n in {None,0..3|live|+2}, for the history-shaped and for a freshly rebuilt router, plus repeated warm-ups (cache(1) twice, cache(None) twice, cache(a) then cache(b)); because Router::clone shares every route's lazily compiled capture regex with its source, the answers (ids + captures) of every variant are also compared with a pristine router built from new Route objects that is never cloned nor cached.",
      "Trace arrays whose order comes from hash-map iteration are sorted before comparison.",
      "DESIGN.md 3.1.4, 3.2", "E1 + E2")

check("C17", "model_checking",
      "explicit-state BFS over insert histories of the real Router; trace-vs-match agreement at every state and probe",
      "Same states and probe sets as C01 (smaller plans: tracing costs ~30x a match). At every probe: set of rules extracted from trace_request == set matched for the normalised request == set matched for the request; priority of the serialised get_trace final rule == priority of get_route, which must be maximal; for tie-free ranks the last TraceAction step serialises exactly like Action::from_routes_rule.",
      "Rule universe of C01 carries no action payload; payload-carrying action traces are compared in C05/C19.",
      "DESIGN.md 3.1.3", "E1 router-state explorer")

check("C05", "exploration",
      "exhaustive product enumeration of rule lists over an effect alphabet against a declarative reference fold",
      "All rule lists of <=2 rules over 168 shapes (4 response-code conditions x 6 controls incl. reset/stop/sampling 0/100 x 7 payloads) and all lists of 3 over a 40-shape core (thorough: all lists of 3 over the 168 shapes, 4 over a 20-shape core), x 4 rank patterns (incl. ties) x 3 sampling overrides x response codes {0,200,404,500}. Routes come from Rule::into_route and reach Action::from_routes_rule unsorted (1-in-64 through a real Router). Status code, filtered headers, body-filter output, both log decisions, applied ids and the rule-ids header are compared with a reference that sorts by (rank desc, id desc), applies sampling, reset and stop and evaluates each rule's own response-code condition.",
      "Sampling rates other than 0/100 are random and outside the alphabet. Reference validated in round 0 (7.9M evaluations).",
      "DESIGN.md 3.4, 4 (C05)", "E4 product enumerator")

check("C06", "exploration",
      "exhaustive enumeration of library-built actions and probe requests, observation equality before/after JSON round trip (serde and extern C)",
      "Every action built from all rule lists of <=2 rules over the 168 shapes (thorough: + lists of 3 over the core) x rank patterns x sampling overrides, and from 130+ rules with hand-built body filters (HTML/text variants, every optional field absent/present), is serialised, deserialised (serde_json and redirectionio_action_json_{,de}serialize) and compared on 5 codes x 3 header lists x 2 bodies x fresh/pre-used, plus re-serialisation equality and hand-off after partial use. Every probe request around every rule of a collision-rich router (plus IPv6, sub-second timestamps, non-ASCII headers, all-None) must match the same rules after the round trip, through serde and the extern C functions.",
      "Domain = actions the library itself builds (not arbitrary JSON).",
      "DESIGN.md 4 (C06)", "E4 product enumerator")

check("C11", "exploration",
      "exhaustive enumeration of rule lists x all permutations of match order and insertion order, single-serialisation oracle",
      "All lists of <=4 (quick) / <=5 (thorough) rules over 12 shapes with conflicting effects (several status codes, Location overrides, log overrides, reset, stop, conditional variants) x 4 rank patterns (distinct, all tied, first two tied, ascending): every permutation of the matched list given to Action::from_routes_rule and every insertion order into a Router (match order then comes from randomly seeded hash maps) must give one and the same serialised action, whose rule_ids order equals the reference (rank desc, id desc) application order after reset/stop.",
      "Sampling disabled (precondition of the statement).",
      "DESIGN.md 4 (C11)", "E4 product enumerator")

check("C09", "exploration",
      "exhaustive product enumeration (configurations x URL alphabet) with metamorphic relations between rule-side and request-side normalisation",
      "All 2^6 flag combinations x 2 marketing sets x 8 paths (space, %20, non-ASCII, quote, angle brackets, plus) x every ordered list of <=2 (quick) / <=3 (thorough) distinct parameters over an 11-parameter alphabet (duplicate keys, empty values, bare keys, %20, '+', non-ASCII, marketing keys, upper-case key). Per (configuration, URL): the rule written from the URL matches it; all query permutations match; marketing parameters added are ignored iff configured and the Location carries exactly the sorted skipped parameters iff both flags (targets with and without '?'); ASCII case swap matches iff case is ignored; dropped / changed / added parameter and changed path do not match; rebuild is idempotent and leaves a fresh request unchanged.",
      "Values never contain encoded delimiters; relation (2) only for distinct decoded keys (statement's precondition). Two open findings (rule source containing a marketing key; key order depending on case) are listed in known_findings.json.",
      "DESIGN.md 4 (C09)", "E4 product enumerator")

check("C10", "exploration",
      "exhaustive product enumeration of marker templates x typed expressions x accepted/rejected instantiations x transformer chains, reference substitution oracle",
      "Six templates (one marker, two segments with prefix names a/ab, two markers in one segment, host+path, header+path, host+path+header with the prefix chain abc/ab/a) x 7 typed marker expressions (integer, lowercase, enum, uuid, date, anything, percent-encoded) x all accepted value combinations and one rejected value at a time in every anchored position x transformer chains of length <=2 over 7 transformers x request header name in rule case / lower case x path-case flag x explicit variables of all 8 kinds. Oracle: match <=> every value accepted by its expression (regex crate, case-insensitive where configured); Location, Action::get_target, the custom header value, the text and the HTML body-filter values equal the template with references replaced longest-name-first by the transformed values (references to unknown markers stay literal).",
      "ASCII values without '@'. camelize/dasherize/underscorize reference = heck.",
      "DESIGN.md 4 (C10)", "E4 product enumerator")

check("C14", "exploration",
      "deviation-bounded exhaustive enumeration of chunk schedules of compressed streams on the real decode/filter/encode chain, independent-decoder oracle",
      "7 bodies (half with 2/3/4-byte characters, one empty, one of 75 KiB so that a compressed chunk inflates past the codecs' 32 KiB internal buffers) x gzip/zlib/brotli streams produced at several levels / window sizes x 3 filter lists, Content-Encoding in both letter cases. Per stream: the single-chunk schedule, ALL partitions with one cut, an empty chunk at every cut and at both ends, ALL uniform strides 1..n (stride 1 = byte at a time) and a lattice of two-cut partitions (thorough: ALL partitions with <=2 cuts). The concatenated output must be accepted by an independent decoder as exactly one complete stream (no error, no trailing bytes) whose plaintext equals the same filters applied to the plain body. Unsupported / composite encodings (identity, compress, zstd, 'gzip, br', x-gzip, empty) must build no filter (natively and through Action::create_filter_body) and pass opaque bytes through.",
      "Codec state is opaque, so there is no state merging and the bound is the number of cuts, not all partitions. flate2 and brotli are trusted as producers and decoders.",
      "DESIGN.md 3.3 (E3'), 4 (C14)", "E3' deviation-bounded chunker")

check("C15", "exploration",
      "exhaustive enumeration of generated DOM trees x filter lists, reference edit at the known tag spans",
      "Documents are generated as trees and serialised by the harness: paths of depth 1-4 plus [html,head]; target content = every list of <=2 (quick) / <=3 (thorough) fillers over 10 fillers (text, entity, comment containing markup, p, p.k, span with quoted attribute, br, img/, upper-case EM, script containing '<'); every (pre, post) list of <=2 fillers around the path child one ancestor level at a time; upper-case and attribute-carrying path tags; replace on 2-3 sibling targets with separators, on void (meta) and self-closing targets; pairs of filters on [html,head] and [html,body,div] in both chain orders. Filters: append_child / prepend_child / replace x {no selector, selector matching a filler inside the target, selector matching nothing} x 2 values. The output must equal the reference splice (before the end tag / after the start tag / whole element for every sibling).",
      "The generator never produces what the statement excludes (path tags elsewhere, repeated or void append/prepend targets).",
      "DESIGN.md 4 (C15)", "E4 product enumerator")

check("C07", "fault_enumeration",
      "deviation-bounded exhaustive fault enumeration over a baseline bundle driving the whole public pipeline, in worker subprocesses on a 2 MiB-stack thread",
      "A baseline bundle (router config, a rule with every optional block, a partner rule closing a redirect chain, request, response head and body, example, analysis parameters) drives ~60 public entry points in proxy order: deserialisation, Router insert/cache, request construction and rebuild, match/trace/get_trace, Action building, status/header/body filtering with 3 chunkings, logging, JSON round trips, and the test-examples / explain / impact / unit-ids analyses in both entry-point families (which run the redirect-loop analysis). A deviation replaces one of ~150 fields by one value of its hostile alphabet (~1000 values: marker regexes, transformer options incl. every (from,to) pair and multi-byte captures, cidr/date/time/weekday strings, URLs, targets without host, status/rank/hops/sampling extremes, selectors, element paths, 17 response bodies incl. 2 MiB text/script/comment, 20000-deep nesting, escaped and double-escaped script data, truncated and valid compressed streams). Quick: all bundles with 0 and 1 deviations; thorough: all pairs. Plus every null/valid pattern of the pointer arguments of all 23 extern C entry points x 3 payload variants (plain, empty, non-UTF-8 / null fields in header lists), including calling the init functions twice. Oracle: no unwind (panic location recorded by a hook), no abort or signal (must reproduce in isolation, with entry tracing), no 20 s stall.",
      "Release profile only. Inputs that do not deserialise are outside the domain. Coverage = the alphabets x the deviation bound.",
      "DESIGN.md 3.5, 4 (C07)", "E5 deviation-bounded fault explorer")

check("C18", "model_checking",
      "exhaustive enumeration of well-typed extern C call sequences executed under an auditing global allocator (layout / liveness / leak audit) with native-API value oracles",
      "Every well-typed sequence (a handle is used after its creation and before its single release; everything still live is released at the end through its matching function) of <=4 (quick) / <=5 (thorough) calls over a 34-call alphabet covering requests (3 constructors), actions, body filters (incl. creation that yields NULL), trusted proxies, buffers (empty, 1 byte, 4 KiB, capacity != length, from String), serialisers, header-list filtering, body filtering with a real and with a NULL filter, logging, duplicate/clone and all drop/close functions. Each sequence runs 4 times in a dedicated binary whose #[global_allocator] records (pointer -> size, align) of every live allocation in a static table: warm-up, measured run (every dealloc/realloc is checked: unknown pointer = double free / foreign pointer, size or alignment different from the allocation), and two leak probes (live count and bytes must return to the starting value). Values are compared with the native Rust API on the same inputs (buffers byte-equal, header lists as multisets, JSON strings equal).",
      "Single-threaded. TrustedProxies is documented as never freed, sequences creating one are excluded from the leak account only. Returned strings / header nodes are released by the harness the way they were allocated.",
      "DESIGN.md 3.6, 4 (C18)", "E6 FFI call-sequence explorer")

check("C19", "exploration",
      "exhaustive product enumeration (base rule sets x change-sets x examples x hop limits x domains), differential between the incremental and standalone entry-point families, the harness's own proxy-order pipeline and internal consistency of the hop list",
      "Base sets of <=2 (quick) / <=3 (thorough) rules from a 10-rule alphabet (redirect chains a->b->c, self loop, a->b->a, conditional and exclude-conditional redirects, header/body filters and log override with unit ids, reset, stop, a dynamic rule, an off-domain target; every rule has a second version with the same id; examples incl. must_match:false and an unparsable URL) x change-sets {none, add, add+delete, update, delete, update+delete in both roles} x hop limits x project domains {[], [host]} x example URLs x example status {none, 404, 200} x impact action. Per case: TestExamples, UnitIds, Explain and Impact through *_from_project(Arc<Router>, change-set) and through the standalone entry point on the resulting rule list must serialise identically (match traces compared through the rules they contain, set-valued unit_ids_seen sorted), the standalone test-examples output must be the same for every order of the rule list, the explain response (status, headers, body, log decision) must equal the harness's own pipeline in proxy order, every reported hop list has <= max_hops+1 entries, only redirect hops, Loop iff a (URL, method) repeats, TooManyHops only at the limit, and equals (hops and verdict) what an independent follower built on the harness's own pipeline computes for GET and POST examples, and the shared router's snapshot and answers are unchanged after every project call.",
      "One open finding (explain/impact skip the request-time phase when the example carries a status code) is listed in known_findings.json.",
      "DESIGN.md 4 (C19)", "E4 product enumerator")


# ---- session 3: what was added to each check (appended to the claim text; DESIGN.md 8.5 has the details) ----
ADDITIONS = {
 "C01": "Added in session 3: marker paths sharing a plain upper-case prefix (/A/x-@m, /A/y-@m); host-focus universe with a second rule on the longer host pattern and the same dynamic host in another casing (10 rules). Count thresholds: routers holding 60 / 130 rules that differ in ONE trigger dimension (static / dynamic host, static / dynamic path, ip range, method, header value, date range), every rule's own request judged by the flat predicate, cold and warmed; repeated constraints (same ip range / method twice); IPv6 range, single address, range + negation; IPv4-mapped client address. After round 5: a date window whose bounds are written with UTC offsets (+02:00 / -05:00).",
 "C02": "Added in session 3: r12 (a header condition shared with r5 inside ONE header matcher) and r13 (host \"\" = any host); 15 variants / 13 ids. Later in session 3: r14 (the same ip constraint / method twice), r15 (header pattern with an upper-case literal), r16 / r17 (two rules on one dynamic host under a scheme of their own), r18 (a two-condition date group sharing with two other groups): 21 variants / 19 ids; change-sets that delete an id and bring a version of it.",
 "C03": "Added in session 3: the six context-loss signatures are fixed in /repo (856299d) and suppress nothing any more; a curated body with end tags that close nothing inside a buffered target; bodies that are NOT valid UTF-8 (one 0xFF at every 5th / every position of 3 / 8 curated documents x 4 filter lists): the by-design divergence of the error fallback is one open finding, any loss / duplication / permutation of bytes on such a body has its own signature. Size thresholds: generated documents with one long run (4 KiB .. 512 KiB, thorough 2 MiB) inside each of 11 constructs x 4 filter lists, one chunk vs strides 1 000 .. 100 000 and single cuts around the run. After round 5: curated bodies with processing instructions / bogus comments containing a tag of the filter's path, raw-text end tags in upper / mixed case, <plaintext> inside a target, BOM + SVG; two filter lists with an unparsable css_selector.",
 "C04": "Added in session 3: size thresholds - the generated documents with one long run (4 KiB .. 512 KiB, thorough 2 MiB) inside each of 11 constructs x 4 filter lists under one chunk, six strides and cuts around the run: conservation relation on every output; a curated body with end tags that close nothing inside a buffered target. After round 5: the same curated bodies and unparsable-selector lists as C03 (conservation relation on every output).",
 "C05": "Added in session 3: controls are the full product reset x stop x sampling{none,0,100} (12), a payload overriding one header shared by all rules, unit ids on every rule and filter; every case is also built and observed with a UnitTrace handed to every call (same action JSON, same effects, trace rule ids == applied ids). Code lists written unsorted ([500, 404], also excluded); get_final_status_code_with_fallback against the reference; the same Action object used for one response code and then asked about another. After round 5: long lists (70 / 130 / 260 rules) whose ids mix numeric and non-numeric strings.",
 "C06": "Added in session 3: requests at instants 400 us / 1 ns before and 999.6 ms / 1 s - 1 ns after every probe instant (the probe space puts its instants ON the window boundaries); rules whose target / header / body values have blank edges, are empty or contain control characters. 130 / 1 100 filler headers before the probe's own; the used action is continued for four codes after the hand-off. After round 5: a request without authority but with a Host header naming a host some rules are bound to.",
 "C07": "Added in session 3: marker expressions with named / unnamed groups of their own that accept the baseline values. Date edges (+10000, -0001, +262142 ...) with a rule that has a request_time variable and no date trigger (found a genuine defect, fixed a779549); logger-installing cases in a worker process of their own, both orders of the two initialisers (found a genuine defect, fixed f99fff9); 4 KiB chunks for big bodies. After round 5: every single-deviation case and every pointer pattern runs a second time in a worker whose log records go to a C callback (redirectionio_log_init_with_callback; the receiver releases each message); a many-matched-rules family (8 / 24 / 70 / 260 rules of one rank matched by one request x 4 id styles, handed to the action builder in 8 orders). A header-filter value with a NUL byte in the extern C action.",
 "C08": "Added in session 3: twin-tree interleavings - two trees differing only in ignore_case hold the same pattern and run the script insert, find, cache, find; all 70 interleavings x 27 patterns x {multi, unique}, each on a thread of its own; every find must equal the linear scan of its own tree (detects per-thread / process-wide memoisation keyed without the case mode). 'nested' set explored insert-only (every insertion order of every subset, depth 6 / 7), 'wide' set (a node with 11 children prefilled), 'case-folding' set (letters with more than two case forms). After round 5: a case-folding pattern set with a catch-all root ((?:[^/]+)\\.example) and non-ASCII cased letters in shared prefixes; result ORDER of a warmed tree against the tree it was cloned from.",
 "C09": "Added in session 3: a non-ASCII parameter name and a parameter sorting after the marketing keys. Prefix-related parameter names (a / a2); every URL with <=1 parameter also as a rule that declares an unused marker. After round 5: '{', '}', back-tick and '|' in the path alphabet (genuine defect on the back-tick fixed in /repo); parameters \u00e9=1, z=9, a2=5, hsCta=t; a configured marketing name with an upper-case letter, added to requests by the marketing oracle; an unused marker declared by the rule; queries of 70 / 130 / 300 parameters.",
 "C10": "Added in session 3: transformers that cannot be built (unknown type, replace / slice without options) inside chains and in a variable's chain; references directly followed by a name character (@a_s, @y9, @xs). A marker name with upper-case letters, expressions containing a quote / a named group of their own, an unrelated header before the one a pattern looks at. After round 5: sibling rules in the same tree whose patterns agree up to the beginning of the marker expression; expression types digits-star, four-digits, not-quote, named-group; references followed by name characters.",
 "C11": "Added in session 3: built with the C05 builder; long lists (70 / 130 / 260 rules, limited orders). After round 5: long lists whose ids mix numeric and non-numeric strings.",
 "C12": "Added in session 3: heavy-pattern pass (never-warmed vs warmed tree / router on expressions whose compiled program is large) and twin-router interleavings (two routers differing only in ignore_path_and_query_case, same marker rules, all 70 interleavings of insert / match / cache / match, each on its own thread, every answer compared with the router's own configuration). 'wide' tree configuration; warmed tree states are compared with the linear scan; r15 in the quick router set. After round 5: result order and elected route of a warmed clone against the router / tree it was cloned from; the case-folding pattern set with a catch-all root and non-ASCII prefixes in the tree half.",
 "C13": "Added in session 3: second universe with prefix-related names (X, X-Y, x-y-z), filters with and without unit id / production target hash; Action::filter_headers also with a UnitTrace. Third universe: names of equal length differing in one non-letter byte by bit 5 (X~Y / X^Y). After round 5: operation names in other letter case (Add, REMOVE, Override, Replace ...) are unknown operations.",
 "C14": "Added in session 3: hand-built zlib streams declaring windows of 2^9 / 2^12 / 2^14 bytes, a gzip member with FEXTRA / FNAME / FCOMMENT; filter lists replace_text and a buffering two-stage HTML list. Filter list with an HTML stage before replace_text. After round 5: a 1.2 MiB body made of one <style> token (more than 1 MiB held by the HTML stage between two calls).",
 "C15": "Added in session 3: 2-4 sibling occurrences of the target for ALL three edits (found a genuine defect, fixed in /repo 586fa08); non-void self-closing fillers, raw-text fillers with white space in the end tag, the legacy script guard; two unparsable selectors. Size thresholds: the generated documents with one long run, exact expected output in one chunk; an upper-case twin of the element the selector looks for. After round 5: script fillers with a double-escaped section (<!-- <script> </script> -->), custom elements whose names start with a raw-text element name (<title-bar>, <style-guide>), unparsable selectors.",
 "C16": "Added in session 3: run-length sweep - 23 constructs x 18 fillers x every run length 1..80 (quick) / 1..300 (thorough), in the document and in a raw-text context. Composite tokens reaching the deep script sub-states within the quick bound, byte order mark, <svg> / </svg>. After round 5: prefix + buffered() == input after EVERY token (and buffered() twice); raw() stable after every accessor of the token; composite script tokens, BOM, <title-bar>.",
 "C17": "Added in session 3: every probe is also traced as a request built with the DEFAULT configuration (the trace normalises it itself); marker paths sharing a plain upper-case prefix. Count thresholds: the many-rules pass with trace == match, final priority and last action step; IPv4-mapped client address.",
 "C18": "Added in session 3: header lists with undecodable entries (NULL name, NULL value, ISO-8859-1 bytes) between valid ones; a body filter that failed on an earlier chunk (declared gzip, body not gzip); allocation-free termination watchdog. add_proxy with a rejected string, header lists of 130 entries, released blocks quarantined while a sequence runs (a use after free inside the library is reported instead of crashing the explorer). After round 5: a callback-logger pass in a subprocess of its own (all sequences one call shorter than the bound, two receiver behaviours: keeps every message until the sequence is over and then reads and releases it / releases it inside the callback; a message that is no longer a live allocation when its receiver uses it, or an audit event, is a violation; a death of that subprocess is the violation log-message:process-died); payloads over 64 KiB (an 84 KiB action document of 400 small filters, header values of 65 535 / 65 536 / 100 000 bytes, a 70 KB URL - in every sequence one call shorter than the bound); an action document both sides refuse; a leak has to repeat in three further executions before it is reported.",
 "C19": "Added in session 3: ignore_path_and_query_case with a lone upper-case pattern rule; independent verdict on every example of the final rule list (must-match example fails iff the live pipeline does not apply its rule, must-not-match example fails iff it does; example_count). After round 5: the project served on an IPv4 / IPv6 literal (rule targets, absolute examples and project_domains rewritten).",
}
COMMON = " Every unit of work runs under a termination watchdog (a call that does not return within 30 s is the violation does-not-terminate with a replay file) and with panics of the library caught (violation panic:<file:line>). A violation that fails inside the exploration but not when its case is executed alone is confirmed by a second complete exploration and reported as history-dependent (hidden shared state in the library)."
for pid, c in CHECKS.items():
    if pid in ADDITIONS:
        c["level_claimed"]["text"] += " " + ADDITIONS[pid]
    if pid not in ("C07", "C16"):
        c["level_claimed"]["text"] += COMMON
CHECKS["C03"]["level_note"] = "Bodies outside the corpus are not covered; compressed chains are C14. One open finding (known_findings.json): on a body that is not valid UTF-8 a one-chunk run passes through as a whole while a chunked run has already filtered the chunks before the fault. The lexical-context findings of the pinned tree are fixed in /repo (856299d)."

ALL = [f"C{n:02d}" for n in range(1, 20)]

NOT_BUILT_REASON = "check not built yet in this round (planned, see DESIGN.md section 0); not claimed until its explorer exists and has been shown to detect a seeded change"

def main():
    manifest = {
        "version": 1,
        "setup_cmd": "./check build",
        "hooks": {
            "guard": "cargo feature `verif` of the redirectionio crate (#[cfg(feature = \"verif\")])",
            "enable": "the harness crate /verif/harness depends on redirectionio by path (/repo) with features = [\"verif\"]; ./check rebuilds it from /repo's working tree (PUBLISH_SKIP_BUILD=1 so build.rs does not regenerate files in /repo)",
            "baseline_off_cmd": "cd /repo && cargo test --workspace --no-fail-fast --offline",
            "source_commits": ["e1a85fb"],
            "add_only": True,
        },
        "engines": [
            {"name": "E-chunk", "path": "harness/src/engines/chunk.rs", "serves_properties": ["C03", "C04", "C14"],
             "kind_free_text": "BFS over all chunk partitions of a body with state merging on the complete filter state"},
            {"name": "E-bfs", "path": "harness/src/engines/bfs.rs", "serves_properties": ["C01", "C02", "C08", "C12", "C17"],
             "kind_free_text": "level-synchronous explicit-state BFS over the real implementation object; canonical state keys from the `verif` snapshot hooks"},
        ],
        "checks": [CHECKS[p] for p in ALL if p in CHECKS],
        "not_applicable": [{"property_id": p, "reason": NOT_BUILT_REASON} for p in ALL if p not in CHECKS],
        "notes": "All checks are bounded exhaustive explorations of the real code (see DESIGN.md). ./check <id> <tier> rebuilds the harness and /repo (feature verif) first. Known findings: known_findings.json.",
    }
    with open(os.path.join(ROOT, "MANIFEST.json"), "w") as f:
        json.dump(manifest, f, indent=1)
        f.write("\n")

if __name__ == "__main__":
    main()
