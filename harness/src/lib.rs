//! Bounded exhaustive exploration of redirectionio (libredirectionio) — shared machinery.
//!
//! See /verif/DESIGN.md. Every property module enumerates a finite space completely,
//! runs the real implementation on every point / state and judges it with an oracle.

pub mod common;
pub mod corpus;
pub mod effects;
pub mod engines;
pub mod ffi;
pub mod props;
pub mod refmodel;
pub mod universe;
