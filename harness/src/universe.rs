//! Shared alphabets (rule / request universes) used by several property modules.
