//! Rule / request universes for the router properties (C01, C02, C12, C17) and the flat reference
//! predicate `sat`, written from the property statement on the *specification* of a rule (never on
//! `Route`).

use chrono::{DateTime, Datelike, NaiveTime, Utc, Weekday};
use redirectionio::api::Rule;
use redirectionio::http::Request;
use redirectionio::RouterConfig;
use regex::RegexBuilder;
use serde::{Deserialize, Serialize};
use serde_json::{json, Value};
use std::net::IpAddr;

pub const DIMS: usize = 7;
pub const DIM_NAMES: [&str; DIMS] = ["scheme", "host", "ip", "method", "headers", "datetime", "path"];

#[derive(Clone, Debug, Serialize, Deserialize, PartialEq, Eq)]
pub struct HeaderCond {
    pub kind: String,
    pub name: String,
    pub value: Option<String>,
}

#[derive(Clone, Debug, Serialize, Deserialize, PartialEq, Eq, Default)]
pub struct RuleSpec {
    pub id: String,
    pub label: String,
    pub scheme: Option<String>,
    pub host: Option<String>,
    /// (in_range?, cidr text)
    pub ips: Option<Vec<(bool, String)>>,
    pub methods: Option<Vec<String>>,
    pub exclude_methods: Option<bool>,
    pub headers: Vec<HeaderCond>,
    pub datetime: Option<Vec<(Option<String>, Option<String>)>>,
    pub time: Option<Vec<(Option<String>, Option<String>)>>,
    pub weekdays: Option<Vec<String>>,
    pub path: String,
    pub query: Option<String>,
    /// (name, regex)
    pub markers: Vec<(String, String)>,
    pub rank: u16,
    /// extra action fields merged into the rule JSON (status code, target, filters ...)
    pub extra: Option<Value>,
}

impl RuleSpec {
    pub fn base(id: &str) -> RuleSpec {
        RuleSpec { id: id.to_string(), label: "base".into(), path: "/a".into(), rank: 1, ..Default::default() }
    }

    pub fn to_json(&self) -> Value {
        let ips: Option<Vec<Value>> = self
            .ips
            .as_ref()
            .map(|l| l.iter().map(|(inr, c)| if *inr { json!({"in_range": c}) } else { json!({"not_in_range": c}) }).collect());
        let headers: Option<Vec<Value>> = if self.headers.is_empty() {
            None
        } else {
            Some(self.headers.iter().map(|h| json!({"type": h.kind, "name": h.name, "value": h.value})).collect())
        };
        let mut source = json!({
            "scheme": self.scheme, "host": self.host, "ips": ips, "path": self.path, "query": self.query,
            "headers": headers, "methods": self.methods, "exclude_methods": self.exclude_methods,
            "response_status_codes": null, "exclude_response_status_codes": null, "sampling": null,
        });
        if let Some(dt) = &self.datetime {
            source["datetime"] = json!(dt.iter().map(|(a, b)| json!([a, b])).collect::<Vec<_>>());
        }
        if let Some(t) = &self.time {
            source["time"] = json!(t.iter().map(|(a, b)| json!([a, b])).collect::<Vec<_>>());
        }
        if let Some(w) = &self.weekdays {
            source["weekdays"] = json!(w);
        }
        let markers: Vec<Value> = self.markers.iter().map(|(n, r)| json!({"name": n, "regex": r, "transformers": []})).collect();
        let mut rule = json!({
            "id": self.id, "source": source, "target": null, "status_code": null, "rank": self.rank, "markers": markers,
            "body_filters": null, "header_filters": null, "log_override": null, "reset": null, "stop": null, "examples": null,
            "redirect_unit_id": null, "configuration_log_unit_id": null, "configuration_reset_unit_id": null, "target_hash": null,
        });
        if let Some(Value::Object(extra)) = &self.extra {
            for (k, v) in extra {
                if k == "source" {
                    if let Value::Object(se) = v {
                        for (sk, sv) in se {
                            rule["source"][sk] = sv.clone();
                        }
                    }
                } else {
                    rule[k] = v.clone();
                }
            }
        }
        rule
    }

    pub fn to_rule(&self) -> Rule {
        serde_json::from_value(self.to_json()).expect("rule spec deserialises")
    }

    pub fn has_host(&self) -> bool {
        matches!(&self.host, Some(h) if !h.is_empty())
    }

    pub fn scheme_scope(&self) -> Option<&str> {
        match &self.scheme {
            Some(s) if !s.is_empty() => Some(s.as_str()),
            _ => None,
        }
    }
}

// ---------------------------------------------------------------------------------------------
// configurations

#[derive(Clone, Debug, Serialize, Deserialize, PartialEq, Eq)]
pub struct Cfg {
    pub ignore_host_case: bool,
    pub ignore_header_case: bool,
    pub ignore_path_and_query_case: bool,
    pub always_match_any_host: bool,
}

impl Cfg {
    pub fn from_bits(bits: u32) -> Cfg {
        Cfg {
            ignore_host_case: bits & 1 != 0,
            ignore_header_case: bits & 2 != 0,
            ignore_path_and_query_case: bits & 4 != 0,
            always_match_any_host: bits & 8 != 0,
        }
    }
    pub fn to_router_config(&self) -> RouterConfig {
        let mut c = RouterConfig::default();
        c.ignore_host_case = self.ignore_host_case;
        c.ignore_header_case = self.ignore_header_case;
        c.ignore_path_and_query_case = self.ignore_path_and_query_case;
        c.always_match_any_host = self.always_match_any_host;
        c
    }
}

// ---------------------------------------------------------------------------------------------
// probe requests: one value per dimension

#[derive(Clone, Debug, Serialize, Deserialize, PartialEq, Eq)]
pub struct Probe {
    pub scheme: Option<String>,
    pub host: Option<String>,
    pub ip: Option<String>,
    pub method: Option<String>,
    pub headers: Vec<(String, String)>,
    pub at: Option<String>,
    pub path: String,
}

pub const T0: &str = "2024-03-04T10:00:00Z"; // a Monday
pub const T1: &str = "2024-03-06T12:00:00Z"; // a Wednesday

pub struct ProbeSpace {
    pub schemes: Vec<Option<String>>,
    pub hosts: Vec<Option<String>>,
    pub ips: Vec<Option<String>>,
    pub methods: Vec<Option<String>>,
    pub headers: Vec<Vec<(String, String)>>,
    pub times: Vec<Option<String>>,
    pub paths: Vec<String>,
}

fn s(x: &str) -> Option<String> {
    Some(x.to_string())
}

impl ProbeSpace {
    pub fn standard() -> ProbeSpace {
        let h = |l: &[(&str, &str)]| -> Vec<(String, String)> { l.iter().map(|(a, b)| (a.to_string(), b.to_string())).collect() };
        ProbeSpace {
            schemes: vec![s("http"), s("https"), None, s("ftp")],
            hosts: vec![s("a.example"), s("A.Example"), s("cat.example"), s("cow.example"), s("Cat.Example"), s("cat.Example"), s("shop-cat.example"), s("Shop-cat.example"), s("other.org"), None, s("cat.example.org"), s("cat.EXAMPLE"), s("cat.two.example")],
            ips: vec![
                s("10.0.0.1"),
                s("8.8.8.8"),
                s("10.1.0.1"),
                s("192.168.0.1"),
                s("9.255.255.255"),
                s("10.0.0.0"),
                s("10.255.255.255"),
                s("11.0.0.0"),
                s("::1"),
                None,
                s("2001:db8::1"),
                s("2001:db9::1"),
                // an IPv4 client as a dual-stack listener reports it
                s("::ffff:10.0.0.1"),
            ],
            methods: vec![None, s("GET"), s("POST"), s("PUT"), s("get")],
            headers: vec![
                h(&[]),
                h(&[("X", "v")]),
                h(&[("x", "v")]),
                h(&[("X", "V")]),
                h(&[("X", "w")]),
                h(&[("X", "avb")]),
                h(&[("X", "v7")]),
                h(&[("X", "w"), ("X", "v")]),
                h(&[("X", "v"), ("Y", "1")]),
                h(&[("Y", "1")]),
                h(&[("Z", "v")]),
                h(&[("X", "")]),
                h(&[("X", "V7")]),
            ],
            times: vec![
                s("2024-03-05T10:00:00Z"), // Tue, inside [T0,T1), inside 09-17
                s("2024-03-04T09:59:59Z"), // Mon, 1s before T0
                s(T0),
                s("2024-03-06T11:59:59Z"), // Wed, 1s before T1
                s(T1),
                s("2024-03-05T08:59:59Z"), // Tue before 09:00
                s("2024-03-05T09:00:00Z"),
                s("2024-03-05T16:59:59Z"),
                s("2024-03-05T17:00:00Z"),
                s("2024-03-07T10:00:00Z"), // Thu, after T1
                s("2024-05-05T10:00:00Z"), // Sun, inside second range
                None,
            ],
            paths: vec![
                "/a".into(),
                "/A".into(),
                "/a?x=1".into(),
                "/a/b".into(),
                "/a/B".into(),
                "/a/b/b".into(),
                "/a/7".into(),
                "/b".into(),
                "/a/".into(),
                "/a/b/c".into(),
                "/A/b".into(),
                "/a/b/B".into(),
                "/a?x=2".into(),
                // two marker rules sharing the PLAIN literal prefix "/A/" (an inner tree node whose prefix has no group)
                "/A/x-b".into(),
                "/a/x-b".into(),
                "/A/y-b".into(),
                // a tail shorter than the number of escaped characters of the shared literal prefix "/x\-y\-z/"
                "/x-y-z/q".into(),
                "/x-y-z/q/e".into(),
                // digits / non-digits after a literal (expressions \\d+ and \\D+)
                "/a/i-7".into(),
                "/a/i-x".into(),
            ],
        }
    }

    pub fn sizes(&self) -> [usize; DIMS] {
        [self.schemes.len(), self.hosts.len(), self.ips.len(), self.methods.len(), self.headers.len(), self.times.len(), self.paths.len()]
    }

    pub fn probe(&self, idx: &[usize; DIMS]) -> Probe {
        Probe {
            scheme: self.schemes[idx[0]].clone(),
            host: self.hosts[idx[1]].clone(),
            ip: self.ips[idx[2]].clone(),
            method: self.methods[idx[3]].clone(),
            headers: self.headers[idx[4]].clone(),
            at: self.times[idx[5]].clone(),
            path: self.paths[idx[6]].clone(),
        }
    }
}

impl Probe {
    /// Build the request the way a proxy does: documented constructor, then headers, then remote address / time.
    pub fn to_request(&self, rc: &RouterConfig) -> Request {
        let ip: Option<IpAddr> = self.ip.as_ref().map(|i| i.parse().expect("probe ip"));
        let mut r = Request::from_config(rc, self.path.clone(), self.host.clone(), self.scheme.clone(), self.method.clone(), ip, None);
        for (n, v) in &self.headers {
            r.add_header(n.clone(), v.clone(), rc.ignore_header_case);
        }
        r.created_at = self.at.as_ref().map(|t| t.parse::<DateTime<Utc>>().expect("probe time"));
        r
    }
}

// ---------------------------------------------------------------------------------------------
// reference predicate, one function per trigger dimension. Some(true/false) or None = "the statement
// does not say" (the pair is then not asserted either way).

fn marker_regex(template: &str, markers: &[(String, String)], ignore_case: bool, anchored: bool) -> Option<regex::Regex> {
    // escaped literal text with each @name (longest name first) replaced by its expression
    let mut pattern = regex::escape(template);
    let mut ms: Vec<&(String, String)> = markers.iter().collect();
    ms.sort_by(|a, b| b.0.len().cmp(&a.0.len()));
    let mut used = false;
    for (n, r) in ms {
        let needle = format!("@{n}");
        if pattern.contains(&needle) {
            used = true;
            pattern = pattern.replace(&needle, &format!("(?:{r})"));
        }
    }
    if !used {
        return None;
    }
    let full = if anchored { format!("^(?:{pattern})$") } else { pattern };
    RegexBuilder::new(&full).case_insensitive(ignore_case).build().ok()
}

pub fn sat_scheme(r: &RuleSpec, p: &Probe) -> Option<bool> {
    Some(match r.scheme_scope() {
        None => true,
        Some(sc) => p.scheme.as_deref() == Some(sc),
    })
}

pub fn sat_host(r: &RuleSpec, p: &Probe, cfg: &Cfg) -> Option<bool> {
    let host = match &r.host {
        Some(h) if !h.is_empty() => h,
        _ => return Some(true),
    };
    let req = match &p.host {
        None => return Some(false),
        Some(h) => h,
    };
    Some(match marker_regex(host, &r.markers, cfg.ignore_host_case, true) {
        Some(re) => re.is_match(req),
        None => {
            if cfg.ignore_host_case {
                host.to_lowercase() == req.to_lowercase()
            } else {
                host == req
            }
        }
    })
}

pub fn sat_ip(r: &RuleSpec, p: &Probe) -> Option<bool> {
    let ips = match &r.ips {
        None => return Some(true),
        Some(l) => l,
    };
    let parsed: Vec<(bool, cidr::AnyIpCidr)> = ips.iter().filter_map(|(inr, c)| c.parse::<cidr::AnyIpCidr>().ok().map(|c| (*inr, c))).collect();
    if parsed.is_empty() {
        return Some(true);
    }
    match &p.ip {
        None => {
            if parsed.iter().all(|(inr, _)| *inr) {
                Some(false)
            } else {
                None
            }
        }
        Some(ip) => {
            let ip: IpAddr = ip.parse().unwrap();
            Some(parsed.iter().any(|(inr, c)| if *inr { c.contains(&ip) } else { !c.contains(&ip) }))
        }
    }
}

pub fn sat_method(r: &RuleSpec, p: &Probe) -> Option<bool> {
    let methods = match &r.methods {
        None => return Some(true),
        Some(m) if m.is_empty() => return Some(true),
        Some(m) => m,
    };
    let req = p.method.as_deref().unwrap_or("GET");
    let listed = methods.iter().any(|m| m == req);
    match r.exclude_methods {
        None => Some(listed),
        Some(true) => Some(!listed),
        // an explicit `false` is the plain method list (the flag says: do not exclude)
        Some(false) => Some(listed),
    }
}

pub fn sat_headers(r: &RuleSpec, p: &Probe, cfg: &Cfg) -> Option<bool> {
    for c in &r.headers {
        let values: Vec<String> = p
            .headers
            .iter()
            .filter(|(n, _)| n.to_lowercase() == c.name.to_lowercase())
            .map(|(_, v)| if cfg.ignore_header_case { v.to_lowercase() } else { v.clone() })
            .collect();
        let want = c.value.as_ref().map(|v| if cfg.ignore_header_case { v.to_lowercase() } else { v.clone() });
        let ok = match (c.kind.as_str(), &want) {
            ("is_defined", _) => !values.is_empty(),
            ("is_not_defined", _) => values.is_empty(),
            ("is_equals", Some(w)) => values.iter().any(|v| v == w),
            ("is_not_equal_to", Some(w)) => values.iter().all(|v| v != w),
            ("contains", Some(w)) => values.iter().any(|v| v.contains(w.as_str())),
            ("does_not_contain", Some(w)) => values.iter().all(|v| !v.contains(w.as_str())),
            ("starts_with", Some(w)) => values.iter().any(|v| v.starts_with(w.as_str())),
            ("ends_with", Some(w)) => values.iter().any(|v| v.ends_with(w.as_str())),
            ("match_regex", Some(_)) => {
                // pattern = the rule's own text, unanchored by design, read without regard to letter case when header case is
                // ignored (like every other kind of header condition); conditions without a marker are skipped
                match marker_regex(c.value.as_ref().unwrap(), &r.markers, cfg.ignore_header_case, false) {
                    None => continue,
                    Some(re) => values.iter().any(|v| re.is_match(v)),
                }
            }
            // unknown kind or missing value: the condition is skipped
            _ => continue,
        };
        if !ok {
            return Some(false);
        }
    }
    Some(true)
}

fn parse_dt(x: &Option<String>) -> Option<DateTime<Utc>> {
    x.as_ref().and_then(|s| s.parse::<DateTime<Utc>>().ok())
}
fn parse_time(x: &Option<String>) -> Option<NaiveTime> {
    x.as_ref().and_then(|s| s.parse::<NaiveTime>().ok())
}

pub fn sat_datetime(r: &RuleSpec, p: &Probe) -> Option<bool> {
    let weekdays: Option<Vec<Weekday>> = r.weekdays.as_ref().map(|l| l.iter().filter_map(|w| w.parse::<Weekday>().ok()).collect::<Vec<_>>()).filter(|l| !l.is_empty());
    let dt = r.datetime.as_ref().filter(|l| !l.is_empty());
    let tm = r.time.as_ref().filter(|l| !l.is_empty());
    if dt.is_none() && tm.is_none() && weekdays.is_none() {
        return Some(true);
    }
    let at = match &p.at {
        None => return Some(false),
        Some(t) => t.parse::<DateTime<Utc>>().unwrap(),
    };
    if let Some(ranges) = dt {
        let ok = ranges.iter().any(|(a, b)| {
            let (a, b) = (parse_dt(a), parse_dt(b));
            a.map_or(true, |a| at >= a) && b.map_or(true, |b| at < b)
        });
        if !ok {
            return Some(false);
        }
    }
    if let Some(ranges) = tm {
        let t = at.naive_utc().time();
        let ok = ranges.iter().any(|(a, b)| {
            let (a, b) = (parse_time(a), parse_time(b));
            a.map_or(true, |a| t >= a) && b.map_or(true, |b| t < b)
        });
        if !ok {
            return Some(false);
        }
    }
    if let Some(days) = weekdays {
        if !days.contains(&at.weekday()) {
            return Some(false);
        }
    }
    Some(true)
}

/// ASCII-only paths here (normalisation is C09's subject): the rule side is path[?sorted query]
pub fn sat_path(r: &RuleSpec, p: &Probe, cfg: &Cfg) -> Option<bool> {
    let mut rule_path = r.path.clone();
    if let Some(q) = &r.query {
        if !q.is_empty() {
            rule_path.push('?');
            rule_path.push_str(q);
        }
    }
    Some(match marker_regex(&rule_path, &r.markers, cfg.ignore_path_and_query_case, true) {
        Some(re) => re.is_match(&p.path),
        None => {
            if cfg.ignore_path_and_query_case {
                rule_path.to_lowercase() == p.path.to_lowercase()
            } else {
                rule_path == p.path
            }
        }
    })
}

pub fn sat_dim(dim: usize, r: &RuleSpec, p: &Probe, cfg: &Cfg) -> Option<bool> {
    match dim {
        0 => sat_scheme(r, p),
        1 => sat_host(r, p, cfg),
        2 => sat_ip(r, p),
        3 => sat_method(r, p),
        4 => sat_headers(r, p, cfg),
        5 => sat_datetime(r, p),
        6 => sat_path(r, p, cfg),
        _ => unreachable!(),
    }
}

/// Per-rule, per-dimension truth table over the probe space: 1 = satisfied, 0 = not, 2 = unspecified
pub struct SatTable {
    pub table: Vec<Vec<u8>>,
}

impl SatTable {
    pub fn build(r: &RuleSpec, space: &ProbeSpace, cfg: &Cfg) -> SatTable {
        let sizes = space.sizes();
        let mut table = Vec::new();
        for dim in 0..DIMS {
            let mut row = Vec::new();
            for v in 0..sizes[dim] {
                let mut idx = [0usize; DIMS];
                idx[dim] = v;
                let p = space.probe(&idx);
                row.push(match sat_dim(dim, r, &p, cfg) {
                    Some(true) => 1,
                    Some(false) => 0,
                    None => 2,
                });
            }
            table.push(row);
        }
        SatTable { table }
    }

    /// Some(bool) or None when some dimension is unspecified and no dimension is false
    pub fn sat(&self, idx: &[usize; DIMS]) -> Option<bool> {
        let mut unknown = false;
        for dim in 0..DIMS {
            match self.table[dim][idx[dim]] {
                0 => return Some(false),
                2 => unknown = true,
                _ => {}
            }
        }
        if unknown {
            None
        } else {
            Some(true)
        }
    }

    /// first probe value of every dimension that satisfies the rule (0 when none does)
    pub fn satisfying(&self) -> [usize; DIMS] {
        let mut idx = [0usize; DIMS];
        for dim in 0..DIMS {
            idx[dim] = self.table[dim].iter().position(|x| *x == 1).unwrap_or(0);
        }
        idx
    }
}

/// Expected match set (ids), applying the any-host policy per scheme scope on top of `sat`.
/// Returns (must_match, may_match): ids whose answer the statement fixes, and ids left open.
pub fn expected_matches(live: &[(&RuleSpec, &SatTable)], idx: &[usize; DIMS], space: &ProbeSpace, cfg: &Cfg) -> (Vec<String>, Vec<String>) {
    let req_scheme = space.schemes[idx[0]].as_deref();
    let mut must = Vec::new();
    let mut may = Vec::new();
    // scopes: None (rules for any scheme) and the request's scheme
    let mut scopes: Vec<Option<&str>> = vec![None];
    if let Some(sc) = req_scheme {
        scopes.push(Some(sc));
    }
    for scope in scopes {
        let in_scope: Vec<&(&RuleSpec, &SatTable)> = live.iter().filter(|(r, _)| r.scheme_scope() == scope).collect();
        let host_specific: Vec<(&RuleSpec, Option<bool>)> = in_scope.iter().filter(|(r, _)| r.has_host()).map(|(r, t)| (*r, t.sat(idx))).collect();
        let any_host: Vec<(&RuleSpec, Option<bool>)> = in_scope.iter().filter(|(r, _)| !r.has_host()).map(|(r, t)| (*r, t.sat(idx))).collect();
        let mut specific_matched = false;
        let mut specific_unknown = false;
        for (r, s) in &host_specific {
            match s {
                Some(true) => {
                    specific_matched = true;
                    must.push(r.id.clone());
                }
                None => {
                    specific_unknown = true;
                    may.push(r.id.clone());
                }
                _ => {}
            }
        }
        for (r, s) in &any_host {
            match s {
                Some(true) => {
                    if cfg.always_match_any_host || (!specific_matched && !specific_unknown) {
                        must.push(r.id.clone());
                    } else if !specific_matched && specific_unknown {
                        may.push(r.id.clone());
                    }
                }
                None => {
                    if cfg.always_match_any_host || !specific_matched {
                        may.push(r.id.clone());
                    }
                }
                _ => {}
            }
        }
    }
    must.sort();
    may.sort();
    (must, may)
}

// ---------------------------------------------------------------------------------------------
// the star-and-pairs rule universe

fn hc(kind: &str, name: &str, value: Option<&str>) -> HeaderCond {
    HeaderCond { kind: kind.into(), name: name.into(), value: value.map(|v| v.to_string()) }
}

/// All single-dimension deviations from the base rule, as (dimension, label, mutator)
pub fn deviations() -> Vec<(usize, String, Box<dyn Fn(&mut RuleSpec) + Send + Sync>)> {
    let mut d: Vec<(usize, String, Box<dyn Fn(&mut RuleSpec) + Send + Sync>)> = Vec::new();
    let mut add = |dim: usize, label: &str, f: Box<dyn Fn(&mut RuleSpec) + Send + Sync>| d.push((dim, label.to_string(), f));
    // scheme
    add(0, "scheme=''", Box::new(|r| r.scheme = Some("".into())));
    add(0, "scheme=http", Box::new(|r| r.scheme = Some("http".into())));
    add(0, "scheme=https", Box::new(|r| r.scheme = Some("https".into())));
    // host
    add(1, "host=''", Box::new(|r| r.host = Some("".into())));
    add(1, "host=a.example", Box::new(|r| r.host = Some("a.example".into())));
    add(1, "host=A.Example", Box::new(|r| r.host = Some("A.Example".into())));
    add(
        1,
        "host=@h.example(cat|dog)",
        Box::new(|r| {
            r.host = Some("@h.example".into());
            r.markers.push(("h".into(), "(cat|dog)".into()));
        }),
    );
    add(
        1,
        "host=@h.example[a-z]+",
        Box::new(|r| {
            r.host = Some("@h.example".into());
            r.markers.push(("h".into(), "[a-z]+".into()));
        }),
    );
    add(
        1,
        "host=@h.Example(cat|dog)",
        Box::new(|r| {
            r.host = Some("@h.Example".into());
            r.markers.push(("h".into(), "(cat|dog)".into()));
        }),
    );
    add(
        1,
        "host=@h.example.org(cat|dog) (regex extends the one of @h.example)",
        Box::new(|r| {
            r.host = Some("@h.example.org".into());
            r.markers.push(("h".into(), "(cat|dog)".into()));
        }),
    );
    // ips
    add(2, "ip=in10/8", Box::new(|r| r.ips = Some(vec![(true, "10.0.0.0/8".into())])));
    add(2, "ip=notin10/8", Box::new(|r| r.ips = Some(vec![(false, "10.0.0.0/8".into())])));
    add(2, "ip=in10/8|in192.168/16", Box::new(|r| r.ips = Some(vec![(true, "10.0.0.0/8".into()), (true, "192.168.0.0/16".into())])));
    add(2, "ip=in10/8|in10.1/16", Box::new(|r| r.ips = Some(vec![(true, "10.0.0.0/8".into()), (true, "10.1.0.0/16".into())])));
    add(2, "ip=garbage", Box::new(|r| r.ips = Some(vec![(true, "garbage".into())])));
    // the other address family, a single address (no prefix length), a range and its negation in one rule
    add(2, "ip=in2001:db8::/32", Box::new(|r| r.ips = Some(vec![(true, "2001:db8::/32".into())])));
    add(2, "ip=in10.0.0.1", Box::new(|r| r.ips = Some(vec![(true, "10.0.0.1".into())])));
    add(2, "ip=in10.0.0.1|in10.0.0.1/32 (same constraint twice)", Box::new(|r| r.ips = Some(vec![(true, "10.0.0.1".into()), (true, "10.0.0.1/32".into())])));
    add(2, "ip=in192.168/16|notin10/8", Box::new(|r| r.ips = Some(vec![(true, "192.168.0.0/16".into()), (false, "10.0.0.0/8".into())])));
    // methods
    add(3, "methods=[]", Box::new(|r| r.methods = Some(vec![])));
    add(3, "methods=[GET]", Box::new(|r| r.methods = Some(vec!["GET".into()])));
    add(3, "methods=[GET,POST]", Box::new(|r| r.methods = Some(vec!["GET".into(), "POST".into()])));
    add(3, "methods=[GET,GET]", Box::new(|r| r.methods = Some(vec!["GET".into(), "GET".into()])));
    add(
        3,
        "exclude[GET]",
        Box::new(|r| {
            r.methods = Some(vec!["GET".into()]);
            r.exclude_methods = Some(true);
        }),
    );
    add(
        3,
        "exclude[GET,POST]",
        Box::new(|r| {
            r.methods = Some(vec!["GET".into(), "POST".into()]);
            r.exclude_methods = Some(true);
        }),
    );
    // the exclusion flag written out as `false`: a plain method list
    add(
        3,
        "methods=[GET] exclude=false",
        Box::new(|r| {
            r.methods = Some(vec!["GET".into()]);
            r.exclude_methods = Some(false);
        }),
    );
    add(
        3,
        "methods=[GET,POST] exclude=false",
        Box::new(|r| {
            r.methods = Some(vec!["GET".into(), "POST".into()]);
            r.exclude_methods = Some(false);
        }),
    );
    // headers
    add(4, "X is_defined", Box::new(|r| r.headers = vec![hc("is_defined", "X", None)]));
    add(4, "X is_not_defined", Box::new(|r| r.headers = vec![hc("is_not_defined", "X", None)]));
    add(4, "X is_equals v", Box::new(|r| r.headers = vec![hc("is_equals", "X", Some("v"))]));
    add(4, "X is_not_equal_to v", Box::new(|r| r.headers = vec![hc("is_not_equal_to", "X", Some("v"))]));
    add(4, "X contains v", Box::new(|r| r.headers = vec![hc("contains", "X", Some("v"))]));
    add(4, "X does_not_contain v", Box::new(|r| r.headers = vec![hc("does_not_contain", "X", Some("v"))]));
    add(4, "X starts_with v", Box::new(|r| r.headers = vec![hc("starts_with", "X", Some("v"))]));
    add(4, "X ends_with v", Box::new(|r| r.headers = vec![hc("ends_with", "X", Some("v"))]));
    add(
        4,
        "X match_regex v@d",
        Box::new(|r| {
            r.headers = vec![hc("match_regex", "X", Some("v@d"))];
            r.markers.push(("d".into(), "[0-9]+".into()));
        }),
    );
    add(
        4,
        "X match_regex V@d (upper-case literal)",
        Box::new(|r| {
            r.headers = vec![hc("match_regex", "X", Some("V@d"))];
            r.markers.push(("d".into(), "[0-9]+".into()));
        }),
    );
    add(4, "X=v&Y defined", Box::new(|r| r.headers = vec![hc("is_equals", "X", Some("v")), hc("is_defined", "Y", None)]));
    add(4, "X=v&Y not defined", Box::new(|r| r.headers = vec![hc("is_equals", "X", Some("v")), hc("is_not_defined", "Y", None)]));
    add(4, "Y is_defined", Box::new(|r| r.headers = vec![hc("is_defined", "Y", None)]));
    add(4, "x(lower) is_equals V(upper)", Box::new(|r| r.headers = vec![hc("is_equals", "x", Some("V"))]));
    add(4, "unknown kind", Box::new(|r| r.headers = vec![hc("sounds_like", "X", Some("v"))]));
    add(4, "missing value", Box::new(|r| r.headers = vec![hc("is_equals", "X", None)]));
    // date / time
    let t0 = || Some(T0.to_string());
    let t1 = || Some(T1.to_string());
    add(5, "dt[T0,T1)", Box::new(move |r| r.datetime = Some(vec![(t0(), t1())])));
    add(
        5,
        "dt two ranges",
        Box::new(move |r| r.datetime = Some(vec![(t0(), t1()), (Some("2024-05-01T00:00:00Z".into()), Some("2024-06-01T00:00:00Z".into()))])),
    );
    // the same window [T0, T1) with its bounds written in other UTC offsets
    add(5, "dt[T0,T1) written +02:00 / -05:00", Box::new(|r| r.datetime = Some(vec![(Some("2024-03-04T12:00:00+02:00".into()), Some("2024-03-06T07:00:00-05:00".into()))])));
    add(5, "dt open start", Box::new(move |r| r.datetime = Some(vec![(None, t1())])));
    add(5, "dt open end", Box::new(move |r| r.datetime = Some(vec![(t0(), None)])));
    add(5, "dt unparsable end", Box::new(move |r| r.datetime = Some(vec![(t0(), Some("not a date".into()))])));
    add(5, "time[09,17)", Box::new(|r| r.time = Some(vec![(Some("09:00:00".into()), Some("17:00:00".into()))])));
    // daily windows open at one end, or at both (= always)
    add(5, "time[09,-)", Box::new(|r| r.time = Some(vec![(Some("09:00:00".into()), None)])));
    add(5, "time[-,17)", Box::new(|r| r.time = Some(vec![(None, Some("17:00:00".into()))])));
    add(5, "time[-,-)", Box::new(|r| r.time = Some(vec![(None, None)])));
    add(5, "weekdays[Mon,Tue]", Box::new(|r| r.weekdays = Some(vec!["Mon".into(), "Tue".into()])));
    add(5, "weekdays[Mon] (prefix of [Mon,Tue])", Box::new(|r| r.weekdays = Some(vec!["Mon".into()])));
    add(5, "weekdays unparsable", Box::new(|r| r.weekdays = Some(vec!["Blursday".into()])));
    add(
        5,
        "dt+time+weekdays",
        Box::new(move |r| {
            r.datetime = Some(vec![(t0(), t1())]);
            r.time = Some(vec![(Some("09:00:00".into()), Some("17:00:00".into()))]);
            r.weekdays = Some(vec!["Mon".into(), "Tue".into()]);
        }),
    );
    // path
    add(6, "path=/A", Box::new(|r| r.path = "/A".into()));
    add(
        6,
        "path=/a?x=1",
        Box::new(|r| {
            r.path = "/a".into();
            r.query = Some("x=1".into());
        }),
    );
    add(
        6,
        "path=/a/@m[a-z]+",
        Box::new(|r| {
            r.path = "/a/@m".into();
            r.markers.push(("m".into(), "[a-z]+".into()));
        }),
    );
    add(
        6,
        "path=/a/@m/b",
        Box::new(|r| {
            r.path = "/a/@m/b".into();
            r.markers.push(("m".into(), "[a-z]+".into()));
        }),
    );
    add(
        6,
        "path=/@m",
        Box::new(|r| {
            r.path = "/@m".into();
            r.markers.push(("m".into(), "[a-z]+".into()));
        }),
    );
    add(
        6,
        "path=/A/@m(upper-case literal)",
        Box::new(|r| {
            r.path = "/A/@m".into();
            r.markers.push(("m".into(), "[a-z]+".into()));
        }),
    );
    // two marker rules sharing a literal prefix whose regex source is longer than its text (escaped '-')
    add(
        6,
        "path=/x-y-z/@m (escaped literal prefix shared with /x-y-z/@m/e)",
        Box::new(|r| {
            r.path = "/x-y-z/@m".into();
            r.markers.push(("m".into(), "[a-z]+".into()));
        }),
    );
    add(
        6,
        "path=/x-y-z/@m/e (escaped literal prefix shared with /x-y-z/@m)",
        Box::new(|r| {
            r.path = "/x-y-z/@m/e".into();
            r.markers.push(("m".into(), "[a-z]+".into()));
        }),
    );
    add(
        6,
        "path=/A/x-@m (plain upper-case prefix shared with /A/y-@m)",
        Box::new(|r| {
            r.path = "/A/x-@m".into();
            r.markers.push(("m".into(), "[a-z]+".into()));
        }),
    );
    add(
        6,
        "path=/A/y-@m (plain upper-case prefix shared with /A/x-@m)",
        Box::new(|r| {
            r.path = "/A/y-@m".into();
            r.markers.push(("m".into(), "[a-z]+".into()));
        }),
    );
    add(
        6,
        "path=/a/@n[0-9a-z]+",
        Box::new(|r| {
            r.path = "/a/@n".into();
            r.markers.push(("n".into(), "[0-9a-z]+".into()));
        }),
    );
    d
}

/// A small universe around the host layer: several rules on the same dynamic host, a dynamic host whose
/// regex extends another one, literal hosts and any-host rules. Explored to a greater insert depth so
/// that every insertion order of every small subset is covered (lookup-or-create of per-host buckets).
pub fn host_focus_universe() -> Vec<RuleSpec> {
    let mk = |id: &str, label: &str, host: Option<&str>, marker: Option<(&str, &str)>, path: &str| {
        let mut r = RuleSpec::base(id);
        r.label = label.to_string();
        r.host = host.map(|h| h.to_string());
        if let Some((n, e)) = marker {
            r.markers.push((n.to_string(), e.to_string()));
        }
        r.path = path.to_string();
        r
    };
    let mut v = vec![
        mk("h1", "dyn host @h.example #1", Some("@h.example"), Some(("h", "(cat|dog)")), "/a"),
        mk("h2", "dyn host @h.example #2 (same host bucket)", Some("@h.example"), Some(("h", "(cat|dog)")), "/a"),
        mk("h3", "dyn host @h.example.org (regex extends @h.example)", Some("@h.example.org"), Some(("h", "(cat|dog)")), "/a"),
        mk("h4", "dyn host @h.example [a-z]+", Some("@h.example"), Some(("h", "[a-z]+")), "/a"),
        mk("h5", "literal host cat.example", Some("cat.example"), None, "/a"),
        mk("h6", "any host", None, None, "/a"),
        mk("h7", "dyn host @h.example #3 other path", Some("@h.example"), Some(("h", "(cat|dog)")), "/b"),
        // a second rule on the LONGER host pattern: the tree then has to find an existing leaf whose pattern has a
        // sibling leaf (h1/h2/h7's pattern) as textual prefix
        mk("h8", "dyn host @h.example.org #2 (same bucket as the extending regex)", Some("@h.example.org"), Some(("h", "(cat|dog)")), "/b"),
        // the same dynamic host written with another casing (one pattern when the host case is ignored, two otherwise)
        mk("h9", "dyn host @h.EXAMPLE (other casing of h1's host)", Some("@h.EXAMPLE"), Some(("h", "(cat|dog)")), "/a"),
        mk("h10", "dyn host @h.EXAMPLE #2 other path", Some("@h.EXAMPLE"), Some(("h", "(cat|dog)")), "/b"),
    ];
    for (i, r) in v.iter_mut().enumerate() {
        r.rank = (i + 1) as u16;
    }
    v
}

/// `pairs`: 0 = singles only, 1 = singles + a fixed selection of cross-dimension pairs, 2 = all pairs
pub fn star_and_pairs_universe(pairs: u8) -> Vec<RuleSpec> {
    let devs = deviations();
    let mut out = vec![RuleSpec::base("u000")];
    for (_, label, f) in &devs {
        let mut r = RuleSpec::base(&format!("u{:03}", out.len()));
        f(&mut r);
        r.label = label.clone();
        out.push(r);
    }
    if pairs > 0 {
        for i in 0..devs.len() {
            for j in i + 1..devs.len() {
                if devs[i].0 == devs[j].0 {
                    continue;
                }
                // selection for pairs == 1: a deterministic stride that touches every deviation at least once
                if pairs == 1 && (i * 7 + j * 3) % 23 != 0 {
                    continue;
                }
                let mut r = RuleSpec::base(&format!("u{:03}", out.len()));
                (devs[i].2)(&mut r);
                (devs[j].2)(&mut r);
                // two deviations may both add a marker named the same: keep the first
                let mut seen = std::collections::BTreeSet::new();
                r.markers.retain(|(n, _)| seen.insert(n.clone()));
                r.label = format!("{} & {}", devs[i].1, devs[j].1);
                out.push(r);
            }
        }
    }
    // distinct ranks and a small, rule-specific payload (status, target, header filter) so that the
    // action computed from a match set depends on every matched rule (used by C17's action-trace check)
    let payload = |out: &mut Vec<RuleSpec>| {
        for (i, r) in out.iter_mut().enumerate() {
            r.rank = (i + 1) as u16;
            let code = if i % 3 == 0 { json!(301) } else if i % 3 == 1 { json!(302) } else { Value::Null };
            r.extra = Some(json!({
                "status_code": code,
                "target": if i % 3 == 2 { Value::Null } else { json!(format!("/t-{}", r.id)) },
                "header_filters": [{"action": if i % 2 == 0 { "add" } else { "override" }, "header": format!("X-R{}", i % 4), "value": r.id, "id": null, "target_hash": null}],
                "log_override": if i % 5 == 0 { json!(false) } else { Value::Null },
                "stop": if i % 11 == 7 { json!(true) } else { Value::Null },
                // every other stop rule is sampled out (sampling 0): its stop flag must then be ignored
                // ... and every other reset rule too (i % 26 == 5): a sampled-out rule resets nothing
                "source": {"sampling": if i % 22 == 7 || i % 26 == 5 { json!(0) } else if i % 17 == 3 { json!(100) } else { Value::Null }},
                "reset": if i % 13 == 5 { json!(true) } else { Value::Null },
            }));
        }
    };
    // a few all-dimension rules: the k-th deviation of every dimension
    for k in 0..6usize {
        let mut r = RuleSpec::base(&format!("u{:03}", out.len()));
        let mut labels = Vec::new();
        for dim in 0..DIMS {
            let of_dim: Vec<usize> = (0..devs.len()).filter(|i| devs[*i].0 == dim).collect();
            let i = of_dim[(k * (dim + 1) + k / 2) % of_dim.len()];
            (devs[i].2)(&mut r);
            labels.push(devs[i].1.clone());
        }
        let mut seen = std::collections::BTreeSet::new();
        r.markers.retain(|(n, _)| seen.insert(n.clone()));
        r.label = format!("all: {}", labels.join(" & "));
        out.push(r);
    }
    payload(&mut out);
    out
}
