//! Declarations of the library's extern "C" surface (resolved against the rlib's #[no_mangle] symbols)
//! and small helpers to build the C-side values a proxy module would pass.

use redirectionio::action::Action;
use redirectionio::filter::{Buffer, FilterBodyAction};
use redirectionio::http::Request;
use std::ffi::{CStr, CString};
use std::os::raw::{c_char, c_short, c_void};
use std::ptr::{null, null_mut};

#[repr(C)]
pub struct CHeaderMap {
    pub name: *const c_char,
    pub value: *const c_char,
    pub next: *mut CHeaderMap,
}

#[repr(C)]
pub struct CTrustedProxies(pub *mut ());

pub type LogCallback = extern "C" fn(*const c_char, *const c_void, c_short);

extern "C" {
    pub fn redirectionio_action_json_deserialize(s: *mut c_char) -> *const Action;
    pub fn redirectionio_action_json_serialize(a: *mut Action) -> *const c_char;
    pub fn redirectionio_action_drop(a: *mut Action);
    pub fn redirectionio_action_get_status_code(a: *mut Action, code: u16) -> u16;
    pub fn redirectionio_action_header_filter_filter(a: *mut Action, h: *const CHeaderMap, code: u16, add_rule_ids: bool) -> *const CHeaderMap;
    pub fn redirectionio_action_body_filter_create(a: *mut Action, code: u16, h: *const CHeaderMap) -> *const FilterBodyAction;
    pub fn redirectionio_action_body_filter_filter(f: *mut FilterBodyAction, b: Buffer) -> Buffer;
    pub fn redirectionio_action_body_filter_close(f: *mut FilterBodyAction) -> Buffer;
    pub fn redirectionio_action_body_filter_drop(f: *mut FilterBodyAction);
    pub fn redirectionio_action_should_log_request(a: *mut Action, allow: bool, code: u16) -> bool;
    pub fn redirectionio_api_get_rule_api_version() -> *const c_char;
    pub fn redirectionio_api_create_log_in_json(
        r: *mut Request,
        code: u16,
        h: *const CHeaderMap,
        a: *mut Action,
        proxy: *const c_char,
        time: u64,
        client_ip: *const c_char,
    ) -> *const c_char;
    pub fn redirectionio_api_buffer_drop(b: Buffer);
    pub fn redirectionio_request_json_deserialize(s: *mut c_char) -> *const Request;
    pub fn redirectionio_request_json_serialize(r: *const Request) -> *const c_char;
    pub fn redirectionio_request_create(uri: *const c_char, host: *const c_char, scheme: *const c_char, method: *const c_char, h: *const CHeaderMap) -> *const Request;
    pub fn redirectionio_trusted_proxies_create(s: *const c_char) -> *const CTrustedProxies;
    pub fn redirectionio_trusted_proxies_add_proxy(t: *mut CTrustedProxies, s: *const c_char);
    pub fn redirectionio_request_set_remote_addr(r: *mut Request, addr: *const c_char, t: *const CTrustedProxies);
    pub fn redirectionio_request_from_str(url: *const c_char) -> *const Request;
    pub fn redirectionio_request_drop(r: *mut Request);
    pub fn redirectionio_log_init_stderr();
    pub fn redirectionio_log_init_with_callback(cb: LogCallback, data: *const c_void);
}

/// a C string owned by the harness (freed when dropped); `ptr()` is what the library receives
pub struct OwnedC {
    inner: Option<CString>,
    raw_bytes: Option<Vec<u8>>,
}

impl OwnedC {
    pub fn new(s: &str) -> OwnedC {
        OwnedC { inner: Some(CString::new(s.replace('\0', "")).unwrap()), raw_bytes: None }
    }
    /// NUL-terminated bytes that need not be UTF-8
    pub fn raw(bytes: &[u8]) -> OwnedC {
        let mut v: Vec<u8> = bytes.iter().copied().filter(|b| *b != 0).collect();
        v.push(0);
        OwnedC { inner: None, raw_bytes: Some(v) }
    }
    pub fn null() -> OwnedC {
        OwnedC { inner: None, raw_bytes: None }
    }
    pub fn ptr(&self) -> *const c_char {
        match (&self.inner, &self.raw_bytes) {
            (Some(c), _) => c.as_ptr(),
            (_, Some(v)) => v.as_ptr() as *const c_char,
            _ => null(),
        }
    }
    pub fn mut_ptr(&self) -> *mut c_char {
        self.ptr() as *mut c_char
    }
}

/// header list owned by the harness: nodes and strings live as long as this value
pub struct OwnedHeaders {
    _strings: Vec<OwnedC>,
    nodes: Vec<Box<CHeaderMap>>,
}

impl OwnedHeaders {
    /// entries: (name, value); None = null pointer for that field
    pub fn new(entries: &[(Option<&str>, Option<&str>)]) -> OwnedHeaders {
        let mut strings = Vec::new();
        let mut nodes: Vec<Box<CHeaderMap>> = Vec::new();
        for (n, v) in entries {
            let ns = n.map(OwnedC::new).unwrap_or_else(OwnedC::null);
            let vs = v.map(OwnedC::new).unwrap_or_else(OwnedC::null);
            nodes.push(Box::new(CHeaderMap { name: ns.ptr(), value: vs.ptr(), next: null_mut() }));
            strings.push(ns);
            strings.push(vs);
        }
        for i in 0..nodes.len().saturating_sub(1) {
            let next: *mut CHeaderMap = &mut *nodes[i + 1];
            nodes[i].next = next;
        }
        OwnedHeaders { _strings: strings, nodes }
    }
    /// entries given as raw bytes (need not be UTF-8); None = null pointer
    pub fn new_raw(entries: &[(Option<&[u8]>, Option<&[u8]>)]) -> OwnedHeaders {
        let mut strings = Vec::new();
        let mut nodes: Vec<Box<CHeaderMap>> = Vec::new();
        for (n, v) in entries {
            let ns = n.map(OwnedC::raw).unwrap_or_else(OwnedC::null);
            let vs = v.map(OwnedC::raw).unwrap_or_else(OwnedC::null);
            nodes.push(Box::new(CHeaderMap { name: ns.ptr(), value: vs.ptr(), next: null_mut() }));
            strings.push(ns);
            strings.push(vs);
        }
        for i in 0..nodes.len().saturating_sub(1) {
            let next: *mut CHeaderMap = &mut *nodes[i + 1];
            nodes[i].next = next;
        }
        OwnedHeaders { _strings: strings, nodes }
    }
    pub fn ptr(&self) -> *const CHeaderMap {
        match self.nodes.first() {
            Some(b) => &**b as *const CHeaderMap,
            None => null(),
        }
    }
}

/// take ownership of a string returned by the library (CString::into_raw on its side) and free it
/// the way it was allocated
///
/// # Safety
/// `p` must be null or a pointer returned by one of the library's string-returning functions
pub unsafe fn take_string(p: *const c_char) -> Option<String> {
    if p.is_null() {
        return None;
    }
    let s = CStr::from_ptr(p).to_string_lossy().to_string();
    drop(CString::from_raw(p as *mut c_char));
    Some(s)
}

/// read and release a header list returned by the library (each node is a Box, each string a CString)
///
/// # Safety
/// `p` must be null or a list returned by redirectionio_action_header_filter_filter
pub unsafe fn take_header_list(p: *const CHeaderMap) -> Vec<(String, String)> {
    let mut out = Vec::new();
    let mut cur = p as *mut CHeaderMap;
    while !cur.is_null() {
        let node = Box::from_raw(cur);
        let n = take_string(node.name).unwrap_or_else(|| "<NULL>".to_string());
        let v = take_string(node.value).unwrap_or_else(|| "<NULL>".to_string());
        out.push((n, v));
        cur = node.next;
    }
    out
}
