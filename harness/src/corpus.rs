//! Body corpus and filter lists shared by the chunk-schedule properties (C03, C04, C14).

use crate::engines::chunk::FilterSpec;
use redirectionio::html::{TokenType, Tokenizer};

pub const GRAMMAR_TOKENS: &[&str] = &[
    "<html>",
    "<body>",
    "<div>",
    "</div>",
    "</body>",
    "<p class=k>",
    "</p>",
    "<br>",
    "<img a=\"1\"/>",
    "te&amp;xt",
    "hé",
    "𝄞",
    "<!-- <div> -->",
    "<script>a<div>b</script>",
    "<textarea><div></textarea>",
    "<di",
    "<title>t</title>",
    "<!-- c -->",
];

/// all sequences of <= max tokens
pub fn grammar_bodies(max: usize) -> Vec<String> {
    let mut out = vec![String::new()];
    let mut layer = vec![String::new()];
    for _ in 0..max {
        let mut next = Vec::new();
        for b in &layer {
            for t in GRAMMAR_TOKENS {
                next.push(format!("{b}{t}"));
            }
        }
        out.extend(next.iter().cloned());
        layer = next;
    }
    out
}

pub fn curated_bodies() -> Vec<String> {
    vec![
        "<!DOCTYPE html><html><head><title>T</title></head><body><div>x</div></body></html>".into(),
        "<html><head><meta charset=\"utf-8\"><meta name='d' content=x></head><body><p>a</p></body></html>".into(),
        "<html><body><div><p class=\"k\">in</p></div><div>two</div></body></html>".into(),
        "<html><body><!-- <div>c</div> --><div>r</div></body></html>".into(),
        "<html><body><script>var s=\"</scr\"+\"ipt><div>\";</script><div>x</div></body></html>".into(),
        "<html><body><script><!-- <script> <div> </script> --></script><div>y</div></body></html>".into(),
        "<html><body><style>div{a:b}</style><div>z</div></body></html>".into(),
        "<html><body><textarea><div>t</div></textarea><div>u</div></body></html>".into(),
        "<HTML><BODY><DIV>upper</DIV></BODY></HTML>".into(),
        "<html><body><div>no end tags".into(),
        "<html><body><div>abc<di".into(),
        "<html><body><p>one<p>two<div>d</div></body></html>".into(),
        "<html><body><div>é𝄞ü</div><div a='1' b=\"2\" c=3>q</div></body></html>".into(),
        "<html><body><![CDATA[<div>c</div>]]><div>w</div></body></html>".into(),
        "<html><body><br><img src=x><div><br/></div><hr></body></html>".into(),
        "<html><body><div><div>nested</div></div></body></html>".into(),
        "text only, no markup at all &amp; entity".into(),
        "<html><head></head><body></body></html>".into(),
        "<!DOCTYPE html>\n<html>\n    <head>\n    </head>\n    <body>\n    </body>\n</html>".into(),
        "<html><body><div>a < b and c > d</div></body></html>".into(),
        "<html><body><a href=\"?a=1&b=2\">l</a><div title=\"<div>\">v</div></body></html>".into(),
        "<html><body></div><div>stray end</div></body></html>".into(),
        "<html><body><div/><div>selfclosing</div></body></html>".into(),
        "<html><body><title>a<div>b</title><div>k</div></body></html>".into(),
        "<html><body><div><p class=k>m</p>".into(),
        // raw-text end tags with white space after the name, legacy script guards writing an inner script
        "<html><head><title>T</title\n></head><body><div>x</div></body></html>".into(),
        "<html><body><style>p{}</style\t><textarea>t</textarea ><div>x</div></body></html>".into(),
        "<html><body><script><!--\ndocument.write('<script src=\"a.js\"><\\/script>');\n//--></script><div>y</div></body></html>".into(),
        "<html><body><script><!-- x --></script><div>y</div><script>a<b</script></body></html>".into(),
        // a document saved as "UTF-8 with BOM", inline SVG with a <title> and a <style> of its own
        "\u{feff}<html><body><svg><title>s</title><style>p{}</style><path d=\"M0 0\"/></svg><div>x</div></body></html>".into(),
        // processing instructions / bogus comments that contain a tag of the filters' paths before their first '>'
        "<?php echo \"<div>\"; ?><html><body><div>x</div></body></html>".into(),
        "<html><body></ bogus <div> ><div>y</div><?x <body> ?></body></html>".into(),
        // raw-text elements whose end tags are not lower case
        "<HTML><HEAD><TITLE>T</TITLE><Script>a<b</Script></HEAD><BODY><TextArea>t</TEXTAREA><div>x</div></BODY></HTML>".into(),
        // <plaintext> inside a buffered target: everything after it is text, to the end of the stream
        "<html><body><div><p class=z>q</p><plaintext>rest <b>of</b> the </div> document".into(),
        // end tags that close nothing inside a buffered target (explicitly closed void element, stray </p>)
        "<html><head><link rel=\"a\"></link><title>T</title></head><body><div><br></br>x</p>y<p class=z>q</p></div></body></html>".into(),
        // raw-text elements written self-closing: the tokenizer reads what follows as their content up to a matching end tag
        "<html><head><script src=\"x\"/></head><body><div>k</div><p class=k>y</p></body></html>".into(),
        "<html><head><title/></head><body><div>x</div></body></html>".into(),
        "<html><body><textarea/><div><p class=k>in</p></div></textarea><div>z</div></body></html>".into(),
    ]
}

pub const S1: &str = "@@A1@@";
pub const S2: &str = "@@B2@@";

/// (name, filter list). Values are ASCII sentinels occurring in no corpus body.
pub fn filter_lists() -> Vec<(&'static str, Vec<FilterSpec>)> {
    vec![
        ("replace[div]", vec![FilterSpec::html("replace", &["div"], None, S1)]),
        ("append[div]sel(p.k)", vec![FilterSpec::html("append_child", &["div"], Some("p.k"), S1)]),
        ("prepend[html,body]", vec![FilterSpec::html("prepend_child", &["html", "body"], None, S1)]),
        (
            "append[html,body]+append_text",
            vec![FilterSpec::html("append_child", &["html", "body"], None, S1), FilterSpec::text("append_text", S2)],
        ),
        ("append[html,body]", vec![FilterSpec::html("append_child", &["html", "body"], None, S1)]),
        ("replace[html,body,div]", vec![FilterSpec::html("replace", &["html", "body", "div"], None, S1)]),
        ("prepend[html,body,div]sel(p)", vec![FilterSpec::html("prepend_child", &["html", "body", "div"], Some("p"), S1)]),
        ("replace[div]sel(p.k)", vec![FilterSpec::html("replace", &["div"], Some("p.k"), S1)]),
        ("append_text", vec![FilterSpec::text("append_text", S1)]),
        ("prepend_text", vec![FilterSpec::text("prepend_text", S1)]),
        ("replace_text", vec![FilterSpec::text("replace_text", S1)]),
        (
            "append[html,body]+replace[div]",
            vec![FilterSpec::html("append_child", &["html", "body"], None, S1), FilterSpec::html("replace", &["div"], None, S2)],
        ),
        (
            "prepend_text+append[html,body]",
            vec![FilterSpec::text("prepend_text", S2), FilterSpec::html("append_child", &["html", "body"], None, S1)],
        ),
        // targets that are raw-text elements (their end tag is found by the raw-text scanner)
        ("replace[title]", vec![FilterSpec::html("replace", &["title"], None, S1)]),
        ("append[textarea]sel(p)", vec![FilterSpec::html("append_child", &["textarea"], Some("p"), S1)]),
        ("replace[html,head,title]", vec![FilterSpec::html("replace", &["html", "head", "title"], None, S1)]),
        // a selector the engine cannot parse (it matches nothing; the filter must not fail half-way through a chunk)
        ("append[div]sel(unparsable)", vec![FilterSpec::html("append_child", &["div"], Some("meta[property=og:title]"), S1)]),
        ("replace[div]sel(unparsable)+append[html,body]", vec![FilterSpec::html("replace", &["div"], Some("p:visited::before"), S1), FilterSpec::html("append_child", &["html", "body"], None, S2)]),
    ]
}

const RAW_TEXT_TAGS: &[&str] = &["iframe", "noembed", "noframes", "noscript", "plaintext", "script", "style", "title", "textarea", "xmp"];

#[derive(Debug, Clone)]
pub struct Span {
    pub start: usize,
    pub end: usize,
    pub kind: TokenType,
    pub tag: Option<String>,
    /// for text tokens: the raw-text element they are the content of
    pub raw_text_of: Option<String>,
}

/// Token spans of the one-chunk tokenisation of `body` (the trailing unterminated part, if any, is an ErrorToken span).
pub fn token_spans(body: &[u8]) -> Vec<Span> {
    let mut t = Tokenizer::new(body.to_vec());
    let mut spans = Vec::new();
    let mut pos = 0;
    let mut pending_raw: Option<String> = None;
    loop {
        let tt = match t.next() {
            Ok(tt) => tt,
            Err(_) => break,
        };
        let raw = t.raw();
        let start = pos;
        pos += raw.len();
        if tt == TokenType::ErrorToken {
            let rest = t.buffered().len();
            if raw.len() + rest > 0 {
                spans.push(Span { start, end: pos + rest, kind: tt, tag: None, raw_text_of: None });
            }
            break;
        }
        let mut tag = None;
        let mut raw_text_of = None;
        match tt {
            TokenType::StartTagToken => {
                let name = t.tag_name().ok().and_then(|(n, _)| n).unwrap_or_default();
                if RAW_TEXT_TAGS.contains(&name.as_str()) {
                    pending_raw = Some(name.clone());
                } else {
                    pending_raw = None;
                }
                tag = Some(name);
            }
            TokenType::TextToken => {
                raw_text_of = pending_raw.take();
            }
            _ => {
                if let Ok((Some(name), _)) = t.tag_name() {
                    tag = Some(name);
                }
                pending_raw = None;
            }
        }
        spans.push(Span { start, end: pos, kind: tt, tag, raw_text_of });
        if spans.len() > body.len() + 2 {
            break;
        }
    }
    spans
}

/// does this byte range contain something a fresh tokenizer would read as markup ('<' followed by a letter, '/', '!' or '?')
///
/// `names`: the element names the filters look for. Only a start or end tag of one of THOSE elements
/// inside raw text / a comment / CDATA can make a filter act differently once the lexical context is
/// lost; other markup-like text (an inner <script src>, <b>, ...) is harmless for these filters.
fn has_taglike(bytes: &[u8], names: &[String]) -> bool {
    let lower: Vec<u8> = bytes.iter().map(|b| b.to_ascii_lowercase()).collect();
    names.iter().any(|n| {
        let open = format!("<{}", n.to_lowercase());
        let close = format!("</{}", n.to_lowercase());
        lower.windows(open.len()).any(|w| w == open.as_bytes()) || lower.windows(close.len()).any(|w| w == close.as_bytes())
    })
}

/// Lexical context of a cut at byte offset `p` (0 < p < |body|).
///
/// The open finding "lexical context lost across chunks" is about content that *contains a tag of an
/// element the filters look for*: raw-text / comment / CDATA content without one is named `...-plain`
/// and is never expected to change the output, so a regression there is not covered by the known
/// signatures.
#[derive(Debug, Clone)]
pub struct Region {
    /// "rawtext", "comment" or "cdata"
    pub kind: &'static str,
    pub tag: String,
    /// cut positions p with start <= p < end (rawtext) / start < p < end (comment, cdata) are inside the construct
    pub start: usize,
    pub end: usize,
    pub content_start: usize,
    pub content_end: usize,
}

fn find_from(hay: &[u8], from: usize, needle: &[u8]) -> Option<usize> {
    if needle.is_empty() || from >= hay.len() {
        return None;
    }
    hay[from..].windows(needle.len()).position(|w| w == needle).map(|i| i + from)
}

/// Lexical regions of a document computed by a small scanner of the harness's own (NOT the library's
/// tokenizer, so that a defect of the tokenizer cannot change how a violation is named): comments,
/// CDATA sections and raw-text elements with their end tags ("</name" followed by white space, '/' or '>',
/// case-insensitively).
pub fn lex_regions(body: &[u8]) -> Vec<Region> {
    let lower: Vec<u8> = body.iter().map(|b| b.to_ascii_lowercase()).collect();
    let n = body.len();
    let mut out = Vec::new();
    let mut i = 0;
    while i < n {
        if body[i] != b'<' {
            i += 1;
            continue;
        }
        if body[i..].starts_with(b"<!--") {
            let (content_end, end) = match find_from(body, i + 4, b"-->") {
                Some(j) => (j, j + 3),
                None => (n, n),
            };
            out.push(Region { kind: "comment", tag: String::new(), start: i, end, content_start: (i + 4).min(n), content_end });
            i = end.max(i + 1);
            continue;
        }
        if body[i..].starts_with(b"<![CDATA[") {
            let (content_end, end) = match find_from(body, i + 9, b"]]>") {
                Some(j) => (j, j + 3),
                None => (n, n),
            };
            out.push(Region { kind: "cdata", tag: String::new(), start: i, end, content_start: (i + 9).min(n), content_end });
            i = end.max(i + 1);
            continue;
        }
        if i + 1 < n && body[i + 1].is_ascii_alphabetic() {
            let mut j = i + 1;
            while j < n && (lower[j].is_ascii_alphanumeric()) {
                j += 1;
            }
            let name = String::from_utf8_lossy(&lower[i + 1..j]).to_string();
            // end of the start tag, quotes respected
            let mut k = j;
            let mut quote: Option<u8> = None;
            while k < n {
                match quote {
                    Some(q) => {
                        if body[k] == q {
                            quote = None;
                        }
                    }
                    None => {
                        if body[k] == b'"' || body[k] == b'\'' {
                            quote = Some(body[k]);
                        } else if body[k] == b'>' {
                            break;
                        }
                    }
                }
                k += 1;
            }
            let tag_end = (k + 1).min(n);
            if k < n && RAW_TEXT_TAGS.contains(&name.as_str()) {
                let content_start = tag_end;
                let mut content_end = n;
                let mut end = n;
                if name != "plaintext" {
                    let needle = format!("</{name}");
                    let mut from = content_start;
                    while let Some(pos) = find_from(&lower, from, needle.as_bytes()) {
                        let after = pos + needle.len();
                        if after >= n || matches!(body[after], b' ' | b'\t' | b'\n' | b'\r' | 0x0c | b'/' | b'>') {
                            content_end = pos;
                            end = match find_from(body, after, b">") {
                                Some(g) => g + 1,
                                None => n,
                            };
                            break;
                        }
                        from = pos + 1;
                    }
                }
                out.push(Region { kind: "rawtext", tag: name, start: content_start, end, content_start, content_end });
                i = end.max(tag_end);
                continue;
            }
            i = tag_end.max(i + 1);
            continue;
        }
        i += 1;
    }
    out
}

pub fn classify_cut(body: &[u8], spans: &[Span], p: usize, names: &[String]) -> String {
    if p < body.len() && (body[p] & 0xC0) == 0x80 {
        return "cut-inside-utf8-sequence".to_string();
    }
    // comments, CDATA and raw-text elements: from the harness's own scanner. The content is held back and
    // re-tokenised together with the next chunk, so every cut in such a region makes the content lose its
    // lexical context; that only matters to a filter when the content contains a tag it looks for.
    for r in lex_regions(body) {
        let inside = match r.kind {
            "rawtext" => r.start <= p && p < r.end && r.end > r.start,
            _ => r.start < p && p < r.end,
        };
        if inside {
            let relevant = has_taglike(&body[r.content_start.min(body.len())..r.content_end.min(body.len()).max(r.content_start.min(body.len()))], names);
            let base = match r.kind {
                "rawtext" => format!("cut-inside-rawtext{}({})", if relevant { "" } else { "-plain" }, r.tag),
                "comment" => format!("cut-inside-comment{}", if relevant { "" } else { "-plain" }),
                _ => format!("cut-inside-cdata{}", if relevant { "" } else { "-plain" }),
            };
            return base;
        }
    }
    // everything else is never an expected context: named from the one-chunk tokenisation
    for s in spans.iter() {
        if s.start < p && p < s.end {
            return match s.kind {
                TokenType::TextToken => "cut-inside-text".to_string(),
                TokenType::CommentToken => "cut-inside-other-markup-declaration".to_string(),
                TokenType::DoctypeToken => "cut-inside-doctype".to_string(),
                TokenType::ErrorToken => "cut-inside-unterminated-tail".to_string(),
                _ => "cut-inside-tag".to_string(),
            };
        }
        if s.start == p {
            return "cut-between-tokens".to_string();
        }
    }
    "cut-between-tokens".to_string()
}

pub fn classify_schedule(body: &[u8], history: &[usize], names: &[String]) -> String {
    let spans = token_spans(body);
    let mut cuts = Vec::new();
    let mut off = 0;
    for k in history {
        off += k;
        if *k > 0 && off < body.len() && cuts.last() != Some(&off) {
            cuts.push(off);
        }
    }
    // a leading zero offset is not a cut
    cuts.retain(|c| *c > 0);
    let has_empty = history.iter().any(|k| *k == 0);
    match cuts.len() {
        0 => {
            if has_empty {
                "empty-chunk-only".to_string()
            } else {
                "no-cut".to_string()
            }
        }
        1 => classify_cut(body, &spans, cuts[0], names),
        _ => {
            let ctx: Vec<String> = cuts.iter().map(|c| classify_cut(body, &spans, *c, names)).collect();
            // cuts that all fall in contexts where the lexical context is lost across chunks (raw text,
            // comment, CDATA, doctype) are one defect class: name it by the *set* of contexts
            let context_loss = |c: &String| c.starts_with("cut-inside-rawtext(") || c == "cut-inside-comment" || c == "cut-inside-cdata" || c == "cut-inside-doctype";
            if ctx.iter().all(context_loss) {
                let set: std::collections::BTreeSet<String> = ctx.into_iter().collect();
                format!("multi-cut-context-loss({})", set.into_iter().collect::<Vec<_>>().join(","))
            } else {
                format!("multi-cut({})", ctx.join(","))
            }
        }
    }
}
