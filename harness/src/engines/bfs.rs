//! Explicit-state breadth-first exploration of a real implementation object.
//!
//! A state holds the real object (or the history that rebuilds it); `key` is a canonical rendering of
//! the *complete* implementation state, so two histories with equal keys have equal futures and the
//! second one is pruned. Exploration is level-synchronous: all states whose shortest history has d
//! operations are expanded (in parallel) before any state of depth d+1, so the reported depth bound is
//! exact and every state within the bound has its invariants evaluated exactly once.

use crate::common::{fp128, Ctx, DistinctSet};
use std::sync::atomic::{AtomicU64, Ordering};
use std::sync::Mutex;

pub trait Explorable: Sync {
    type State: Send + Sync;
    type Action: Send + Sync;

    fn init(&self) -> Vec<Self::State>;
    /// canonical rendering of the full implementation state
    fn key(&self, s: &Self::State) -> String;
    fn actions(&self, s: &Self::State) -> Vec<Self::Action>;
    /// executes the real implementation
    fn step(&self, s: &Self::State, a: &Self::Action) -> Option<Self::State>;
    /// invariants of a (new, unique) state; `depth` = number of operations of its shortest history
    fn check_state(&self, s: &Self::State, depth: usize);
    /// checks on one transition (return values, parent isolation, ...)
    fn check_transition(&self, _parent: &Self::State, _a: &Self::Action, _child: &Self::State) {}
    /// the implementation panicked while executing `a` from `s` (or while being observed in `s`)
    fn report_panic(&self, _s: &Self::State, _a: Option<&Self::Action>, _location: &str, _message: &str) {}
    /// replayable case "history of `s` followed by `a`" (published to the termination watchdog before the step runs)
    fn case_of(&self, _s: &Self::State, _a: Option<&Self::Action>) -> serde_json::Value {
        serde_json::Value::Null
    }
}

/// resident set size of this process in GiB (0 when unknown)
pub fn rss_gib() -> f64 {
    std::fs::read_to_string("/proc/self/statm")
        .ok()
        .and_then(|s| s.split_whitespace().nth(1).and_then(|p| p.parse::<f64>().ok()))
        .map(|pages| pages * 4096.0 / (1024.0 * 1024.0 * 1024.0))
        .unwrap_or(0.0)
}

/// memory cap for an exploration (VERIF_RSS_CAP_GIB, default 20): reaching it stops the search, which then
/// reports exhaustive:false with the depth it completed
pub fn rss_cap_gib() -> f64 {
    std::env::var("VERIF_RSS_CAP_GIB").ok().and_then(|s| s.parse().ok()).unwrap_or(20.0)
}

#[derive(Debug, Default, Clone)]
pub struct BfsStats {
    pub states: u64,
    pub transitions: u64,
    pub max_depth: usize,
    pub states_per_depth: Vec<u64>,
    pub completed_depth: usize,
    pub exhaustive_within_bound: bool,
}

/// Engine cross-check: enumerate EVERY history of <= max_ops operations without any state merging
/// (plain DFS, sequential) and return (histories executed, distinct keys seen). The number of distinct
/// keys must equal the number of states the merging BFS reports for the same bound.
pub fn enumerate_unmerged<M: Explorable>(model: &M, max_ops: usize) -> (u64, u64) {
    fn rec<M: Explorable>(model: &M, s: &M::State, left: usize, histories: &mut u64, keys: &mut std::collections::HashSet<u128>) {
        keys.insert(fp128(model.key(s).as_bytes()));
        *histories += 1;
        if left == 0 {
            return;
        }
        for a in model.actions(s) {
            if let Some(child) = model.step(s, &a) {
                rec(model, &child, left - 1, histories, keys);
            }
        }
    }
    let mut histories = 0u64;
    let mut keys = std::collections::HashSet::new();
    for s in model.init() {
        rec(model, &s, max_ops, &mut histories, &mut keys);
    }
    (histories, keys.len() as u64)
}

pub fn explore<M: Explorable>(ctx: &Ctx, model: &M, max_ops: usize) -> BfsStats {
    let seen = DistinctSet::new();
    let transitions = AtomicU64::new(0);
    let mut stats = BfsStats::default();
    let mut frontier: Vec<M::State> = Vec::new();

    for s in model.init() {
        if seen.insert(fp128(model.key(&s).as_bytes())) {
            frontier.push(s);
        }
    }
    crate::common::par_for_each(ctx.threads, &frontier, |_, s| {
        crate::common::watched(
            || model.case_of(s, None),
            || {
                if let Err((loc, msg)) = crate::common::guarded(|| model.check_state(s, 0)) {
                    model.report_panic(s, None, &loc, &msg);
                }
            },
        );
    });
    stats.states_per_depth.push(frontier.len() as u64);
    stats.states = frontier.len() as u64;
    stats.exhaustive_within_bound = true;

    for depth in 0..max_ops {
        if frontier.is_empty() {
            break;
        }
        if ctx.over_budget() {
            ctx.set_capped(format!("wall budget {}s reached after completing depth {}", ctx.budget_s(), depth));
            stats.exhaustive_within_bound = false;
            break;
        }
        let next: Mutex<Vec<M::State>> = Mutex::new(Vec::new());
        let aborted = std::sync::atomic::AtomicBool::new(false);
        let last_level = AtomicU64::new(0);
        crate::common::par_for_each(ctx.threads, &frontier, |i, s| {
            if i % 64 == 0 && (ctx.over_budget() || rss_gib() > rss_cap_gib()) {
                aborted.store(true, Ordering::Relaxed);
            }
            if aborted.load(Ordering::Relaxed) {
                return;
            }
            let mut local = Vec::new();
            for a in model.actions(s) {
                crate::common::watched(|| model.case_of(s, Some(&a)), || {
                let stepped = match crate::common::guarded(|| model.step(s, &a)) {
                    Ok(c) => c,
                    Err((loc, msg)) => {
                        transitions.fetch_add(1, Ordering::Relaxed);
                        model.report_panic(s, Some(&a), &loc, &msg);
                        None
                    }
                };
                if let Some(child) = stepped {
                    transitions.fetch_add(1, Ordering::Relaxed);
                    let res = crate::common::guarded(|| {
                        model.check_transition(s, &a, &child);
                        let k = model.key(&child);
                        if seen.insert(fp128(k.as_bytes())) {
                            model.check_state(&child, depth + 1);
                            true
                        } else {
                            false
                        }
                    });
                    match res {
                        // states of the last level are checked but not kept: nothing is expanded from them
                        Ok(true) => {
                            if depth + 1 < max_ops {
                                local.push(child)
                            } else {
                                last_level.fetch_add(1, Ordering::Relaxed);
                            }
                        }
                        Ok(false) => {}
                        Err((loc, msg)) => model.report_panic(s, Some(&a), &loc, &msg),
                    }
                }
                });
            }
            if !local.is_empty() {
                next.lock().unwrap().extend(local);
            }
        });
        if aborted.load(Ordering::Relaxed) {
            ctx.set_capped(format!("wall budget {}s or memory cap {} GiB reached while expanding depth {} (rss {:.1} GiB)", ctx.budget_s(), rss_cap_gib(), depth, rss_gib()));
            stats.exhaustive_within_bound = false;
            stats.transitions = transitions.load(Ordering::Relaxed);
            stats.states = seen.len() as u64;
            return stats;
        }
        frontier = next.into_inner().unwrap();
        let level_states = frontier.len() as u64 + last_level.load(Ordering::Relaxed);
        stats.states_per_depth.push(level_states);
        stats.completed_depth = depth + 1;
        if level_states > 0 {
            stats.max_depth = depth + 1;
        }
    }
    stats.transitions = transitions.load(Ordering::Relaxed);
    stats.states = seen.len() as u64;
    stats
}
