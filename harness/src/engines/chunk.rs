//! E3 — chunk-schedule explorer.
//!
//! The proxy decides where a response body is cut; the explorer plays the proxy. For one
//! (body, filter list, response headers) it explores *every* partition of the body into consecutive
//! chunks (empty chunks included) by BFS over (offset, bytes emitted so far, complete filter state).
//! The filter chain is not `Clone`, so a state is its history of chunk lengths and is rebuilt by
//! replay; the state key is the derived `Debug` rendering of `FilterBodyAction`, which prints every
//! field of the HTML/text stages (carried bytes, buffer chain, path position, flags). Two histories
//! with equal keys are in identical implementation states with identical past output, hence have
//! identical futures, so merging them is sound for uncompressed chains.

use redirectionio::api::{BodyFilter, HTMLBodyFilter, TextAction, TextBodyFilter};
use redirectionio::filter::FilterBodyAction;
use redirectionio::http::Header;
use serde::{Deserialize, Serialize};
use std::collections::{BTreeMap, HashSet, VecDeque};

#[derive(Clone, Debug, Serialize, Deserialize, PartialEq, Eq)]
pub enum FilterSpec {
    Html {
        action: String,
        path: Vec<String>,
        selector: Option<String>,
        value: String,
        /// inner_value of the API filter (only used for unit traces; the document receives `value`)
        #[serde(default)]
        inner: Option<String>,
    },
    Text { action: String, content: String },
}

impl FilterSpec {
    pub fn html(action: &str, path: &[&str], selector: Option<&str>, value: &str) -> FilterSpec {
        FilterSpec::Html {
            action: action.to_string(),
            path: path.iter().map(|s| s.to_string()).collect(),
            selector: selector.map(|s| s.to_string()),
            value: value.to_string(),
            inner: None,
        }
    }
    pub fn text(action: &str, content: &str) -> FilterSpec {
        FilterSpec::Text { action: action.to_string(), content: content.to_string() }
    }
    pub fn to_body_filter(&self) -> Option<BodyFilter> {
        Some(match self {
            FilterSpec::Html { action, path, selector, value, inner } => BodyFilter::HTML(HTMLBodyFilter {
                action: action.clone(),
                value: value.clone(),
                inner_value: inner.clone(),
                element_tree: path.clone(),
                css_selector: selector.clone(),
                id: None,
                target_hash: None,
            }),
            FilterSpec::Text { action, content } => BodyFilter::Text(TextBodyFilter {
                action: match action.as_str() {
                    "append_text" => TextAction::Append,
                    "prepend_text" => TextAction::Prepend,
                    "replace_text" => TextAction::Replace,
                    _ => return None,
                },
                content: content.clone(),
                id: None,
                target_hash: None,
            }),
        })
    }
    pub fn value(&self) -> &str {
        match self {
            FilterSpec::Html { value, .. } => value,
            FilterSpec::Text { content, .. } => content,
        }
    }
}

pub fn build_filter(filters: &[FilterSpec], headers: &[(String, String)]) -> FilterBodyAction {
    let f: Vec<BodyFilter> = filters.iter().filter_map(|f| f.to_body_filter()).collect();
    let h: Vec<Header> = headers.iter().map(|(n, v)| Header { name: n.clone(), value: v.clone() }).collect();
    FilterBodyAction::new(f, &h)
}

/// Run one schedule (chunk lengths must sum to body.len()) and return the total output.
pub fn run_schedule(body: &[u8], filters: &[FilterSpec], headers: &[(String, String)], chunks: &[usize]) -> Vec<u8> {
    let mut f = build_filter(filters, headers);
    let mut out = Vec::new();
    let mut off = 0;
    for k in chunks {
        out.extend(f.filter(body[off..off + k].to_vec(), None));
        off += k;
    }
    assert_eq!(off, body.len(), "schedule does not cover the body");
    out.extend(f.end(None));
    out
}

pub fn single_chunk(body: &[u8], filters: &[FilterSpec], headers: &[(String, String)]) -> Vec<u8> {
    run_schedule(body, filters, headers, &[body.len()])
}

/// upper bound on the states explored for one (body, filters, headers) case: on the unchanged library a
/// case has a few hundred; a defect that makes every partition produce a different opaque state would
/// otherwise exhaust memory. The outputs found up to the cap are still judged.
pub const MAX_STATES_PER_CASE: u64 = 30_000;

pub struct Explored {
    pub capped: bool,
    pub states: u64,
    pub transitions: u64,
    /// distinct total outputs at end of stream -> a shortest history (fewest chunks) producing it
    pub finals: BTreeMap<Vec<u8>, Vec<usize>>,
    pub max_chunks: usize,
    pub keys: HashSet<String>,
}

struct Node {
    history: Vec<usize>,
    offset: usize,
}

fn replay(body: &[u8], filters: &[FilterSpec], headers: &[(String, String)], history: &[usize]) -> (FilterBodyAction, Vec<u8>) {
    crate::common::heartbeat(|| serde_json::json!({"chunks": history}));
    let mut f = build_filter(filters, headers);
    let mut out = Vec::new();
    let mut off = 0;
    for k in history {
        out.extend(f.filter(body[off..off + k].to_vec(), None));
        off += k;
    }
    (f, out)
}

/// Explore all partitions (with state merging). `empty_chunks`: also offer a zero-length chunk at every state.
pub fn explore(body: &[u8], filters: &[FilterSpec], headers: &[(String, String)], empty_chunks: bool, merge: bool) -> Explored {
    let mut seen: HashSet<String> = HashSet::new();
    let mut queue: VecDeque<Node> = VecDeque::new();
    let mut ex = Explored { capped: false, states: 0, transitions: 0, finals: BTreeMap::new(), max_chunks: 0, keys: HashSet::new() };
    let (f0, _) = replay(body, filters, headers, &[]);
    let k0 = format!("0|[]|{f0:?}");
    seen.insert(k0);
    queue.push_back(Node { history: vec![], offset: 0 });
    ex.states = 1;
    while let Some(node) = queue.pop_front() {
        let remaining = body.len() - node.offset;
        if remaining == 0 {
            // End of stream
            let (mut f, mut out) = replay(body, filters, headers, &node.history);
            out.extend(f.end(None));
            ex.transitions += 1;
            ex.max_chunks = ex.max_chunks.max(node.history.len());
            ex.finals.entry(out).or_insert_with(|| node.history.clone());
        }
        if ex.states > MAX_STATES_PER_CASE {
            // keep draining the queue for end-of-stream states only
            ex.capped = true;
            continue;
        }
        let start = if empty_chunks { 0 } else { 1 };
        for k in start..=remaining {
            if k == 0 && node.history.last() == Some(&0) && merge {
                // two empty chunks in a row: covered by the key when nothing changes; still explored below
            }
            let mut history = node.history.clone();
            history.push(k);
            let (f, out) = replay(body, filters, headers, &history);
            ex.transitions += 1;
            let key = format!("{}|{:?}|{:?}", node.offset + k, out, f);
            let is_new = if merge { seen.insert(key) } else { k > 0 || node.history.last() != Some(&0) };
            if is_new {
                ex.states += 1;
                queue.push_back(Node { history, offset: node.offset + k });
            }
        }
    }
    if merge {
        ex.keys = seen;
    }
    ex
}

/// Unmerged enumeration of all 2^(n-1) partitions into non-empty chunks (abstraction cross-check).
pub fn all_partitions_outputs(body: &[u8], filters: &[FilterSpec], headers: &[(String, String)]) -> (u64, BTreeMap<Vec<u8>, Vec<usize>>) {
    let n = body.len();
    let mut finals = BTreeMap::new();
    let mut count = 0u64;
    if n == 0 {
        finals.insert(run_schedule(body, filters, headers, &[]), vec![]);
        return (1, finals);
    }
    for mask in 0u64..(1u64 << (n - 1)) {
        let mut chunks = Vec::new();
        let mut last = 0;
        for i in 0..n - 1 {
            if mask & (1 << i) != 0 {
                chunks.push(i + 1 - last);
                last = i + 1;
            }
        }
        chunks.push(n - last);
        let out = run_schedule(body, filters, headers, &chunks);
        count += 1;
        finals.entry(out).or_insert(chunks);
    }
    (count, finals)
}
