//! E1 — router-state explorer: BFS over operation histories of the real `Router<Rule>`.
//!
//! State = the real router (shared behind `Arc`, children are produced by clone-then-mutate exactly as
//! `RuleChangeSet::update_existing_router` does) + the reference set of live rules + the history.
//! Key = canonical snapshot of all seven matcher layers and both regex trees (hook H2) + live set.

use crate::common::{Ctx, DistinctSet, Samples, Violation};
use crate::engines::bfs::Explorable;
use crate::universe::{expected_matches, Cfg, ProbeSpace, RuleSpec, SatTable, DIMS};
use redirectionio::action::{Action, TraceAction};
use redirectionio::api::{Rule, RuleChangeSet};
use redirectionio::router::{Route, Router, Trace};
use redirectionio::RouterConfig;
use serde::{Deserialize, Serialize};
use serde_json::{json, Value};
use std::collections::{BTreeMap, BTreeSet, HashSet};
use std::sync::atomic::{AtomicU64, Ordering};
use std::sync::Arc;

#[derive(Clone, Debug, Serialize, Deserialize, PartialEq, Eq)]
pub enum Op {
    Insert(usize),
    Remove(String),
    BatchRemove(Vec<String>),
    /// (added universe indices, updated universe indices, deleted ids)
    ChangeSet(Vec<usize>, Vec<usize>, Vec<String>),
    Cache(Option<u64>),
}

#[derive(Clone, Copy, Debug, Default)]
pub struct Checks {
    pub c01: bool,
    pub c02: bool,
    pub c12: bool,
    pub c17: bool,
}

pub struct World {
    pub universe: Vec<RuleSpec>,
    pub rules: Vec<Rule>,
    pub cfgs: Vec<Cfg>,
    pub rcs: Vec<RouterConfig>,
    pub space: ProbeSpace,
    /// tables[cfg][rule]
    pub tables: Vec<Vec<SatTable>>,
    pub max_dev: usize,
    /// how to rebuild this world (stored in replay files)
    pub desc: Value,
}

impl World {
    pub fn new(universe: Vec<RuleSpec>, cfgs: Vec<Cfg>, max_dev: usize, desc: Value) -> World {
        let space = ProbeSpace::standard();
        let rules = universe.iter().map(|r| r.to_rule()).collect();
        let rcs = cfgs.iter().map(|c| c.to_router_config()).collect();
        let tables = cfgs.iter().map(|c| universe.iter().map(|r| SatTable::build(r, &space, c)).collect()).collect();
        World { universe, rules, cfgs, rcs, space, tables, max_dev, desc }
    }

    /// deviation-bounded probe set around the satisfying request of every rule in `around`
    pub fn probes(&self, cfg: usize, around: &[usize]) -> Vec<[usize; DIMS]> {
        let sizes = self.space.sizes();
        let mut set: BTreeSet<[usize; DIMS]> = BTreeSet::new();
        // the fixed "irrelevant" request: last value of every dimension
        let mut irr = [0usize; DIMS];
        for d in 0..DIMS {
            irr[d] = sizes[d] - 1;
        }
        set.insert(irr);
        for &u in around {
            let base = self.tables[cfg][u].satisfying();
            set.insert(base);
            if self.max_dev >= 1 {
                for d1 in 0..DIMS {
                    for v1 in 0..sizes[d1] {
                        let mut a = base;
                        a[d1] = v1;
                        set.insert(a);
                        if self.max_dev >= 2 {
                            for d2 in d1 + 1..DIMS {
                                for v2 in 0..sizes[d2] {
                                    let mut b = a;
                                    b[d2] = v2;
                                    set.insert(b);
                                }
                            }
                        }
                    }
                }
            }
        }
        set.into_iter().collect()
    }
}

pub struct State {
    pub cfg: usize,
    pub router: Arc<Router<Rule>>,
    /// id -> universe index
    pub live: BTreeMap<String, usize>,
    pub history: Vec<Op>,
    pub snapshot: String,
}

pub struct Model<'a> {
    pub ctx: &'a Ctx,
    pub world: &'a World,
    pub checks: Checks,
    pub ops_insert_only: bool,
    pub cache_ops: bool,
    pub match_calls: AtomicU64,
    pub nonempty: AtomicU64,
    pub outcomes: DistinctSet,
    pub samples: Samples,
    pub max_live: usize,
    /// universe indices that may be inserted (all when empty)
    pub insertable: Vec<usize>,
}

pub fn ids_of(routes: &[Arc<Route<Rule>>]) -> Vec<String> {
    let mut v: Vec<String> = routes.iter().map(|r| r.id().to_string()).collect();
    v.sort();
    v
}

impl<'a> Model<'a> {
    pub fn new(ctx: &'a Ctx, world: &'a World, checks: Checks) -> Self {
        Model {
            ctx,
            world,
            checks,
            ops_insert_only: false,
            cache_ops: false,
            match_calls: AtomicU64::new(0),
            nonempty: AtomicU64::new(0),
            outcomes: DistinctSet::new(),
            samples: Samples::new(6),
            max_live: usize::MAX,
            insertable: Vec::new(),
        }
    }

    pub fn case(&self, s: &State, probe: Option<&[usize; DIMS]>) -> Value {
        json!({
            "world": self.world.desc,
            "cfg": self.world.cfgs[s.cfg],
            "cfg_index": s.cfg,
            "history": s.history,
            "rules": s.history_rules(self.world),
            "probe": probe.map(|p| self.world.space.probe(p)),
            "probe_idx": probe.map(|p| p.to_vec()),
        })
    }

    fn report(&self, s: &State, kind: &str, detail: &str, what: String, probe: Option<&[usize; DIMS]>) {
        self.ctx.report(Violation {
            signature: format!("{kind}:{detail}"),
            what,
            case: self.case(s, probe),
            weight: (s.history.len() * 100 + s.live.len()) as u64,
        });
    }

    fn label(&self, id: &str, s: &State) -> String {
        s.live.get(id).map(|u| self.world.universe[*u].label.clone()).unwrap_or_else(|| format!("unknown-id({id})"))
    }

    pub fn new_state(&self, cfg: usize, router: Arc<Router<Rule>>, live: BTreeMap<String, usize>, history: Vec<Op>) -> State {
        let snapshot = router.verif_snapshot();
        State { cfg, router, live, history, snapshot }
    }

    pub fn fresh_router(&self, cfg: usize, live: &BTreeMap<String, usize>) -> Router<Rule> {
        let mut r = Router::<Rule>::from_config(self.world.rcs[cfg].clone());
        for u in live.values() {
            r.insert(self.world.rules[*u].clone());
        }
        r
    }

    pub fn check(&self, s: &State) {
        let w = self.world;
        let cfg = &w.cfgs[s.cfg];
        let rc = &w.rcs[s.cfg];
        let live_idx: Vec<usize> = s.live.values().copied().collect();
        let live_tab: Vec<(&RuleSpec, &SatTable)> = live_idx.iter().map(|u| (&w.universe[*u], &w.tables[s.cfg][*u])).collect();
        // probes: around the live rules; for history-dependent checks also around rules that were removed
        let mut around: Vec<usize> = live_idx.clone();
        if self.checks.c02 {
            for op in &s.history {
                match op {
                    Op::Insert(u) => around.push(*u),
                    Op::ChangeSet(a, u, _) => {
                        around.extend(a.iter().copied());
                        around.extend(u.iter().copied());
                    }
                    _ => {}
                }
            }
            around.sort();
            around.dedup();
        }
        let probes = w.probes(s.cfg, &around);
        let rebuilt = if self.checks.c02 || self.checks.c12 { Some(self.fresh_router(s.cfg, &s.live)) } else { None };
        // Router::clone shares every Route (and its lazily compiled capture regex) with the original, so a
        // clone that was warmed also warms the capture regexes of its source. The pristine router below is
        // built from new Route objects and is never cloned nor cached: the truly uncached baseline.
        let pristine = if self.checks.c12 { Some(self.fresh_router(s.cfg, &s.live)) } else { None };
        let cached_variants: Vec<(String, Router<Rule>)> = if self.checks.c12 {
            let n = s.live.len() as u64 * 3 + 2;
            let mut v = Vec::new();
            let mut limits: Vec<Option<u64>> = vec![None];
            for l in 0..=n {
                // quick tier: every limit up to 4, then the largest (everything cached); thorough: every limit
                if self.ctx.tier == crate::common::Tier::Quick && l > 4 && l < n {
                    continue;
                }
                limits.push(Some(l));
            }
            for l in limits {
                let mut a = s.router.as_ref().clone();
                a.cache(l);
                v.push((format!("state.cache({l:?})"), a));
                let mut b = rebuilt.as_ref().unwrap().clone();
                b.cache(l);
                v.push((format!("fresh.cache({l:?})"), b));
            }
            let mut twice = s.router.as_ref().clone();
            twice.cache(Some(1));
            twice.cache(Some(1));
            v.push(("state.cache(1).cache(1)".into(), twice));
            let mut twice_all = s.router.as_ref().clone();
            twice_all.cache(None);
            twice_all.cache(None);
            v.push(("state.cache(None).cache(None)".into(), twice_all));
            let mut fresh_twice = self.fresh_router(s.cfg, &s.live);
            fresh_twice.cache(None);
            fresh_twice.cache(None);
            fresh_twice.cache(Some(1000));
            v.push(("new.cache(None).cache(None).cache(1000)".into(), fresh_twice));
            let mut ab = s.router.as_ref().clone();
            ab.cache(Some(1));
            ab.cache(None);
            v.push(("state.cache(1).cache(None)".into(), ab));
            v
        } else {
            Vec::new()
        };
        let mut outcome = String::new();

        if self.checks.c02 {
            if s.router.len() != s.live.len() {
                self.report(s, "len", "", format!("len()={} but {} rules are live", s.router.len(), s.live.len()), None);
            }
            for (id, _) in &s.live {
                if s.router.get_route_by_id(id).is_none() {
                    self.report(s, "get_route_by_id", "live-missing", format!("get_route_by_id({id}) is None for a live rule"), None);
                }
            }
            for u in &around {
                let id = &w.universe[*u].id;
                if !s.live.contains_key(id) && s.router.get_route_by_id(id).is_some() {
                    self.report(s, "get_route_by_id", "dead-present", format!("get_route_by_id({id}) is Some for a removed rule"), None);
                }
            }
        }

        for idx in &probes {
            crate::common::beat();
            let probe = w.space.probe(idx);
            let req = probe.to_request(rc);
            let got = ids_of(&s.router.match_request(&req));
            self.match_calls.fetch_add(1, Ordering::Relaxed);
            if !got.is_empty() {
                self.nonempty.fetch_add(1, Ordering::Relaxed);
            }
            outcome.push_str(&got.join(","));
            outcome.push(';');

            if self.checks.c01 || self.checks.c02 {
                let (must, may) = expected_matches(&live_tab, idx, &w.space, cfg);
                for id in &must {
                    let n = got.iter().filter(|g| *g == id).count();
                    if n == 0 {
                        self.report(
                            s,
                            "missed-rule",
                            &self.label(id, s),
                            format!("rule {id} ({}) satisfies every trigger of {probe:?} but is not reported; got {got:?}", self.label(id, s)),
                            Some(idx),
                        );
                    }
                }
                let mut seen = BTreeSet::new();
                for id in &got {
                    if !seen.insert(id.clone()) {
                        self.report(
                            s,
                            "duplicate-rule",
                            &self.label(id, s),
                            format!("rule {id} ({}) is reported more than once for {probe:?}: {got:?}", self.label(id, s)),
                            Some(idx),
                        );
                    }
                    if !must.contains(id) && !may.contains(id) {
                        let kind = if s.live.contains_key(id) { "spurious-rule" } else { "removed-rule-still-matches" };
                        self.report(
                            s,
                            kind,
                            &self.label(id, s),
                            format!("rule {id} ({}) is reported for {probe:?} although a trigger is not satisfied / the any-host policy excludes it; got {got:?}, expected {must:?}", self.label(id, s)),
                            Some(idx),
                        );
                    }
                }
            }
            if self.checks.c02 {
                let rb = ids_of(&rebuilt.as_ref().unwrap().match_request(&req));
                if rb != got {
                    self.report(
                        s,
                        "differs-from-rebuild",
                        &format!("{:?}", s.history.last().map(op_kind).unwrap_or("init")),
                        format!("after {:?} the router answers {got:?} for {probe:?}, a router rebuilt from the live rules answers {rb:?}", s.history),
                        Some(idx),
                    );
                }
            }
            if self.checks.c17 {
                self.check_trace(s, idx, &probe, &req, &got, "");
                // the same probe as a request that was NOT built with this router's configuration (what the explain
                // API receives): tracing normalises it itself, so everything must agree with the normalised request
                let raw = probe.to_request(&redirectionio::RouterConfig::default());
                if serde_json::to_string(&raw).ok() != serde_json::to_string(&req).ok() {
                    self.check_trace(s, idx, &probe, &raw, &got, ":raw-request");
                }
            }
            if self.checks.c12 {
                let fresh = rebuilt.as_ref().unwrap();
                let fresh_obs = observe(fresh, &req);
                let state_obs = observe(&s.router, &req);
                // the history-shaped router may be partially warmed by earlier cache operations: its answers
                // (ids + captures) must be those of the fresh, never-cached router. (Its trace may list
                // emptied buckets left behind by removals; that is not a caching effect and not compared.)
                if answers_part(&state_obs) != answers_part(&fresh_obs) {
                    self.report(
                        s,
                        "warmed-state-differs-from-uncached",
                        "",
                        format!("history-shaped (possibly partially warmed) router answers {} for {probe:?}, a fresh uncached router answers {}", answers_part(&state_obs), answers_part(&fresh_obs)),
                        Some(idx),
                    );
                }
                let pristine_obs = observe(pristine.as_ref().unwrap(), &req);
                for (name, r) in &cached_variants {
                    let o = observe(r, &req);
                    if answers_part(&o) != answers_part(&pristine_obs) {
                        self.report(
                            s,
                            "cached-router-answers-differ-from-never-cached",
                            "",
                            format!("{name} answers {} for {probe:?}; a router built from the same rules and never cached answers {}", answers_part(&o), answers_part(&pristine_obs)),
                            Some(idx),
                        );
                        break;
                    }
                    let (base, what) = if name.starts_with("state") { (&state_obs, "state") } else { (&fresh_obs, "fresh") };
                    // a warmed CLONE against the router it was cloned from: also the order of the results and the elected route
                    if !name.starts_with("new") {
                        let base_router: &Router<Rule> = if name.starts_with("state") { &s.router } else { fresh };
                        let (ob, oc) = (observe_ordered(base_router, &req), observe_ordered(r, &req));
                        if ob != oc {
                            self.report(
                                s,
                                "cache-changes-result-order",
                                what,
                                format!("{name} returns {oc} for {probe:?}; the router it was cloned from returns {ob}"),
                                Some(idx),
                            );
                            break;
                        }
                    }
                    if &o != base {
                        self.report(
                            s,
                            "cache-changes-observation",
                            what,
                            format!("{name} observes {o} for {probe:?}; before the warm-up the same router observed {base}"),
                            Some(idx),
                        );
                        break;
                    }
                }
            }
        }
        self.outcomes.insert_str(&outcome);
        self.samples.offer(|| {
            json!({"cfg": w.cfgs[s.cfg], "history": s.history, "live": s.live.values().map(|u| w.universe[*u].label.clone()).collect::<Vec<_>>(), "probes": probes.len()})
        });
    }

    fn check_trace(&self, s: &State, idx: &[usize; DIMS], probe: &crate::universe::Probe, req: &redirectionio::http::Request, got: &[String], variant: &str) {
        let traces = s.router.trace_request(req);
        let traced = Trace::<Rule>::get_routes_from_traces(&traces);
        let traced_set: BTreeSet<String> = traced.iter().map(|r| r.id().to_string()).collect();
        let rebuilt_req = s.router.rebuild_request(req);
        let matched = s.router.match_request(&rebuilt_req);
        let matched_set: BTreeSet<String> = matched.iter().map(|r| r.id().to_string()).collect();
        let direct_set: BTreeSet<String> = got.iter().cloned().collect();
        if traced_set != matched_set {
            let only_trace: Vec<&String> = traced_set.difference(&matched_set).collect();
            let only_match: Vec<&String> = matched_set.difference(&traced_set).collect();
            let culprit = only_trace.first().or(only_match.first()).map(|id| self.label(id, s)).unwrap_or_default();
            self.report(
                s,
                if only_trace.is_empty() { "trace-misses-rule" } else { "trace-has-extra-rule" },
                &format!("{culprit}{variant}"),
                format!("trace lists {traced_set:?}, matching the normalised request gives {matched_set:?} for {probe:?}"),
                Some(idx),
            );
        }
        if variant.is_empty() && direct_set != matched_set {
            self.report(
                s,
                "rebuild-request-changes-match",
                "",
                format!("match(q)={direct_set:?} but match(rebuild(q))={matched_set:?} for {probe:?}"),
                Some(idx),
            );
        }
        // final route priority
        let rt = s.router.get_trace(req);
        let rt_json = serde_json::to_value(&rt).unwrap_or(Value::Null);
        let final_prio = rt_json.get("final_route").and_then(|f| f.get("priority")).and_then(|p| p.as_i64());
        let direct_prio = s.router.get_route(&rebuilt_req).map(|r| r.priority());
        if final_prio != direct_prio {
            self.report(
                s,
                "trace-final-priority",
                variant.trim_start_matches(':'),
                format!("traced final rule priority {final_prio:?} != priority of the rule selected by direct lookup {direct_prio:?} for {probe:?}"),
                Some(idx),
            );
        }
        if let Some(p) = direct_prio {
            let max = matched.iter().map(|r| r.priority()).max();
            if max != Some(p) {
                self.report(s, "get-route-not-max-priority", "", format!("get_route priority {p} is not the maximal priority {max:?}"), Some(idx));
            }
        }
        // action trace vs live pipeline (tie-free ranks only)
        let ranks: Vec<u16> = matched.iter().map(|r| r.handler().rank).collect();
        let distinct: BTreeSet<u16> = ranks.iter().copied().collect();
        if distinct.len() == ranks.len() {
            let steps = TraceAction::from_trace_rules(&traces, &rebuilt_req);
            let live_action = Action::from_routes_rule(matched.clone(), &rebuilt_req, None);
            let live_json = serde_json::to_value(&live_action).unwrap_or(Value::Null);
            let last_json = match steps.last() {
                None => serde_json::to_value(Action::default()).unwrap(),
                Some(step) => serde_json::to_value(step).ok().and_then(|v| v.get("action").cloned()).unwrap_or(Value::Null),
            };
            if canon_action(&live_json) != canon_action(&last_json) {
                self.report(
                    s,
                    "trace-last-action",
                    variant.trim_start_matches(':'),
                    format!("last action-trace step {last_json} != live action {live_json} for {probe:?}"),
                    Some(idx),
                );
            }
        }
    }

    pub fn apply(&self, s: &State, op: &Op) -> State {
        let w = self.world;
        let mut live = s.live.clone();
        let mut history = s.history.clone();
        history.push(op.clone());
        // children are always derived by clone-then-mutate from the shared parent
        let mut router = s.router.as_ref().clone();
        match op {
            Op::Insert(u) => {
                router.insert(w.rules[*u].clone());
                live.insert(w.universe[*u].id.clone(), *u);
            }
            Op::Remove(id) => {
                let got = router.remove(id);
                let was_live = live.remove(id).is_some();
                if self.checks.c02 {
                    let tmp = State { cfg: s.cfg, router: s.router.clone(), live: s.live.clone(), history: history.clone(), snapshot: String::new() };
                    match (&got, was_live) {
                        (None, true) => self.report(
                            &tmp,
                            "remove-returns-none",
                            &self.label(id, s),
                            format!("remove({id}) returned None for a live rule ({})", self.label(id, s)),
                            None,
                        ),
                        (Some(r), false) => self.report(&tmp, "remove-returns-some", "absent", format!("remove({id}) of an absent id returned rule {}", r.id()), None),
                        (Some(r), true) => {
                            if r.id() != id {
                                self.report(&tmp, "remove-returns-wrong-rule", "", format!("remove({id}) returned rule {}", r.id()), None)
                            }
                        }
                        _ => {}
                    }
                }
            }
            Op::BatchRemove(ids) => {
                let set: HashSet<String> = ids.iter().cloned().collect();
                router.batch_remove(&set);
                for id in ids {
                    live.remove(id);
                }
            }
            Op::ChangeSet(added, updated, deleted) => {
                let cs = RuleChangeSet {
                    added: added.iter().map(|u| w.rules[*u].clone()).collect(),
                    updated: updated.iter().map(|u| w.rules[*u].clone()).collect(),
                    deleted: deleted.iter().cloned().collect(),
                };
                router = cs.update_existing_router(s.router.clone());
                for id in deleted {
                    live.remove(id);
                }
                for u in updated.iter().chain(added.iter()) {
                    live.insert(w.universe[*u].id.clone(), *u);
                }
            }
            Op::Cache(l) => {
                router.cache(*l);
            }
        }
        self.new_state(s.cfg, Arc::new(router), live, history)
    }
}

fn op_kind(op: &Op) -> &'static str {
    match op {
        Op::Insert(_) => "insert",
        Op::Remove(_) => "remove",
        Op::BatchRemove(_) => "batch_remove",
        Op::ChangeSet(..) => "change_set",
        Op::Cache(_) => "cache",
    }
}

/// serialised action with the unordered id sets sorted
pub fn canon_action(v: &Value) -> Value {
    v.clone()
}

/// observation vector of one router for one request: match ids, captures of every matched route, canonical trace JSON
pub fn observe(router: &Router<Rule>, req: &redirectionio::http::Request) -> String {
    let routes = router.match_request(req);
    let mut parts: Vec<String> = routes
        .iter()
        .map(|r| {
            let mut caps: Vec<(String, String)> = r.capture(req).into_iter().collect();
            caps.sort();
            format!("{}{:?}", r.id(), caps)
        })
        .collect();
    parts.sort();
    let traces = router.trace_request(req);
    let tj = serde_json::to_value(&traces).unwrap_or(Value::Null);
    format!("{}|{}", parts.join(","), canon_json(&tj))
}

/// ORDERED observation: the list match_request returns as it comes, and the route get_route elects. Only comparable between a
/// router and a clone of it (a clone keeps the layout of every hash map, hence its iteration order; trees keep their Vec order).
pub fn observe_ordered(router: &Router<Rule>, req: &redirectionio::http::Request) -> String {
    let ids: Vec<String> = router.match_request(req).iter().map(|r| r.id().to_string()).collect();
    let elected = router.get_route(req).map(|r| r.id().to_string());
    format!("{ids:?} elected {elected:?}")
}

pub fn answers_part(obs: &str) -> &str {
    obs.split('|').next().unwrap_or("")
}

/// canonical JSON: arrays whose order comes from hash-map iteration (trace children / storage routes) are sorted
pub fn canon_json(v: &Value) -> String {
    fn canon(v: &Value) -> Value {
        match v {
            Value::Array(a) => {
                let mut items: Vec<Value> = a.iter().map(canon).collect();
                items.sort_by_key(|x| x.to_string());
                Value::Array(items)
            }
            Value::Object(o) => {
                let mut m = serde_json::Map::new();
                let mut keys: Vec<&String> = o.keys().collect();
                keys.sort();
                for k in keys {
                    m.insert(k.clone(), canon(&o[k]));
                }
                Value::Object(m)
            }
            other => other.clone(),
        }
    }
    canon(v).to_string()
}

impl State {
    pub fn history_rules(&self, w: &World) -> Vec<Value> {
        let mut idx = BTreeSet::new();
        for op in &self.history {
            match op {
                Op::Insert(u) => {
                    idx.insert(*u);
                }
                Op::ChangeSet(a, u, _) => {
                    idx.extend(a.iter().copied());
                    idx.extend(u.iter().copied());
                }
                _ => {}
            }
        }
        idx.into_iter().map(|u| json!({"universe_index": u, "label": w.universe[u].label, "rule": w.universe[u].to_json()})).collect()
    }
}

impl<'a> Explorable for Model<'a> {
    type State = State;
    type Action = Op;

    fn init(&self) -> Vec<State> {
        (0..self.world.cfgs.len())
            .map(|c| self.new_state(c, Arc::new(Router::<Rule>::from_config(self.world.rcs[c].clone())), BTreeMap::new(), Vec::new()))
            .collect()
    }

    fn key(&self, s: &State) -> String {
        format!("{}|{}|{:?}", s.cfg, s.snapshot, s.live)
    }

    fn actions(&self, s: &State) -> Vec<Op> {
        let w = self.world;
        let mut ops = Vec::new();
        let all: Vec<usize> = if self.insertable.is_empty() { (0..w.universe.len()).collect() } else { self.insertable.clone() };
        if s.live.len() < self.max_live {
            for u in &all {
                if !s.live.contains_key(&w.universe[*u].id) {
                    ops.push(Op::Insert(*u));
                }
            }
        }
        if self.ops_insert_only {
            return ops;
        }
        let live_ids: Vec<String> = s.live.keys().cloned().collect();
        for id in &live_ids {
            ops.push(Op::Remove(id.clone()));
        }
        ops.push(Op::Remove("absent-id".into()));
        // batch removals: every pair of live ids, every live id with the absent id
        for i in 0..live_ids.len() {
            ops.push(Op::BatchRemove(vec![live_ids[i].clone(), "absent-id".into()]));
            for j in i + 1..live_ids.len() {
                ops.push(Op::BatchRemove(vec![live_ids[i].clone(), live_ids[j].clone()]));
            }
        }
        // change-sets: update = another variant with the same id
        let variants_of = |id: &str, not: usize| -> Vec<usize> { all.iter().copied().filter(|u| w.universe[*u].id == id && *u != not).collect() };
        let first_absent: Option<usize> = all.iter().copied().find(|u| !s.live.contains_key(&w.universe[*u].id));
        for (id, u) in &s.live {
            for alt in variants_of(id, *u) {
                ops.push(Op::ChangeSet(vec![], vec![alt], vec![]));
                if let Some(a) = first_absent {
                    if let Some(other) = live_ids.iter().find(|x| *x != id) {
                        ops.push(Op::ChangeSet(vec![a], vec![alt], vec![other.clone()]));
                    }
                }
            }
            // re-submitting the same version as an update must be a no-op on the answers
            ops.push(Op::ChangeSet(vec![], vec![*u], vec![]));
            // one change-set that deletes an id AND brings a version of it (removals are applied first: the new version is live)
            ops.push(Op::ChangeSet(vec![*u], vec![], vec![id.clone()]));
            if let Some(alt) = variants_of(id, *u).first() {
                ops.push(Op::ChangeSet(vec![], vec![*alt], vec![id.clone()]));
            }
        }
        if let Some(a) = first_absent {
            if let Some(first_live) = live_ids.first() {
                ops.push(Op::ChangeSet(vec![a], vec![], vec![first_live.clone()]));
            }
            ops.push(Op::ChangeSet(vec![a], vec![], vec!["absent-id".into()]));
        }
        if self.cache_ops {
            ops.push(Op::Cache(None));
            ops.push(Op::Cache(Some(1)));
            ops.push(Op::Cache(Some(2)));
        }
        ops
    }

    fn step(&self, s: &State, a: &Op) -> Option<State> {
        Some(self.apply(s, a))
    }

    fn check_state(&self, s: &State, _depth: usize) {
        self.check(s);
    }

    fn case_of(&self, s: &State, a: Option<&Op>) -> Value {
        let mut history = s.history.clone();
        if let Some(a) = a {
            history.push(a.clone());
        }
        let tmp = State { cfg: s.cfg, router: s.router.clone(), live: s.live.clone(), history, snapshot: String::new() };
        let mut c = self.case(&tmp, None);
        c["watch_label"] = json!(a.map(op_kind).unwrap_or("observe"));
        c
    }

    fn report_panic(&self, s: &State, a: Option<&Op>, location: &str, message: &str) {
        let mut history = s.history.clone();
        if let Some(a) = a {
            history.push(a.clone());
        }
        let tmp = State { cfg: s.cfg, router: s.router.clone(), live: s.live.clone(), history, snapshot: String::new() };
        self.ctx.report(Violation {
            signature: format!("panic:{location}"),
            what: format!("the router panicked at {location}: {message} (last operation {a:?})"),
            case: self.case(&tmp, None),
            weight: tmp.history.len() as u64 * 100,
        });
    }

    fn check_transition(&self, parent: &State, a: &Op, child: &State) {
        // clone isolation: deriving the child must not have changed the shared parent
        let now = parent.router.verif_snapshot();
        if now != parent.snapshot {
            self.ctx.report(Violation {
                signature: format!("clone-not-isolated:{}", op_kind(a)),
                what: format!("after deriving a router with {a:?} from a shared router, the shared router's structure changed"),
                case: self.case(child, None),
                weight: child.history.len() as u64 * 100,
            });
        }
    }
}

/// Re-execute a recorded history with every check of `checks` at every prefix.
pub fn replay_history(ctx: &Ctx, world: &World, checks: Checks, cfg: usize, history: &[Op]) {
    let model = Model::new(ctx, world, checks);
    let mut s = model.new_state(cfg, Arc::new(Router::<Rule>::from_config(world.rcs[cfg].clone())), BTreeMap::new(), Vec::new());
    model.check(&s);
    for op in history {
        let child = model.apply(&s, op);
        model.check_transition(&s, op, &child);
        model.check(&child);
        s = child;
    }
}
