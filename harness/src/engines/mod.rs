pub mod bfs;
