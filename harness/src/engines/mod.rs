pub mod bfs;
pub mod chunk;
