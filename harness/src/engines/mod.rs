pub mod bfs;
pub mod chunk;
pub mod router_mc;
