//! C06 — an action survives JSON serialisation unchanged (agent to proxy hand-off); so does a request.
//!
//! Engine E4: every action produced by the C05 enumeration (plus hand-built body-filter shapes), every
//! response code, header list and probe body: obs(de(ser(a))) == obs(a), ser(de(ser(a))) == ser(a), also
//! after partial use and through the extern "C" (de)serialisers; every probe request: restored request
//! matches the same rules on a collision-rich router.

use crate::common::{finish, par_range, Coverage, Ctx, DistinctSet, Samples, Tier, Violation};
use crate::effects::*;
use crate::engines::router_mc::ids_of;
use crate::universe::Cfg;
use redirectionio::action::Action;
use redirectionio::api::Rule;
use redirectionio::http::{Header, Request};
use redirectionio::router::Router;
use redirectionio::RouterConfig;
use serde_json::{json, Value};
use std::ffi::{CStr, CString};
use std::os::raw::c_char;

extern "C" {
    fn redirectionio_action_json_deserialize(s: *mut c_char) -> *const Action;
    fn redirectionio_action_json_serialize(a: *mut Action) -> *const c_char;
    fn redirectionio_action_drop(a: *mut Action);
    fn redirectionio_request_json_deserialize(s: *mut c_char) -> *const Request;
    fn redirectionio_request_json_serialize(r: *const Request) -> *const c_char;
    fn redirectionio_request_drop(r: *mut Request);
}

fn ffi_action_roundtrip(a: &Action) -> Option<(String, Action)> {
    unsafe {
        let p = redirectionio_action_json_serialize(a as *const Action as *mut Action);
        if p.is_null() {
            return None;
        }
        let s = CStr::from_ptr(p).to_str().ok()?.to_string();
        drop(CString::from_raw(p as *mut c_char));
        let cs = CString::new(s.clone()).ok()?;
        let raw = cs.into_raw();
        let ap = redirectionio_action_json_deserialize(raw);
        drop(CString::from_raw(raw));
        if ap.is_null() {
            return None;
        }
        let restored = (*ap).clone();
        redirectionio_action_drop(ap as *mut Action);
        Some((s, restored))
    }
}

fn ffi_request_roundtrip(r: &Request) -> Option<(String, Request)> {
    unsafe {
        let p = redirectionio_request_json_serialize(r as *const Request);
        if p.is_null() {
            return None;
        }
        let s = CStr::from_ptr(p).to_str().ok()?.to_string();
        drop(CString::from_raw(p as *mut c_char));
        let cs = CString::new(s.clone()).ok()?;
        let raw = cs.into_raw();
        let rp = redirectionio_request_json_deserialize(raw);
        drop(CString::from_raw(raw));
        if rp.is_null() {
            return None;
        }
        let restored = (*rp).clone();
        redirectionio_request_drop(rp as *mut Request);
        Some((s, restored))
    }
}

pub fn header_lists() -> Vec<Vec<(String, String)>> {
    vec![base_headers(), vec![], vec![("location".into(), "x".into()), ("X-a".into(), "1".into()), ("X-a".into(), "2".into())]]
}

pub const BODIES: [&[u8]; 2] = [PROBE_BODY, b""];

/// extended observation: one code, one header list, one body
fn obs_ext(action: &Action, c: u16, headers: &[(String, String)], body: &[u8], pre_used: bool) -> String {
    let mut a = action.clone();
    if pre_used {
        a.get_status_code(0, None);
    }
    let status = a.get_status_code(c, None);
    let hdrs: Vec<Header> = headers.iter().map(|(n, v)| Header { name: n.clone(), value: v.clone() }).collect();
    let h1: Vec<(String, String)> = a.filter_headers(hdrs.clone(), c, false, None).into_iter().map(|h| (h.name, h.value)).collect();
    let resp_headers = vec![Header { name: "Content-Type".into(), value: "text/html".into() }];
    let out = match a.create_filter_body(c, &resp_headers) {
        None => body.to_vec(),
        Some(mut f) => {
            let mut o = f.filter(body.to_vec(), None);
            o.extend(f.end(None));
            o
        }
    };
    let l1 = a.should_log_request(true, c, None);
    let l2 = a.should_log_request(false, c, None);
    let applied: Vec<String> = a.get_applied_rule_ids().iter().cloned().collect();
    let h2: Vec<(String, String)> = a.filter_headers(hdrs, c, true, None).into_iter().map(|h| (h.name, h.value)).collect();
    format!("{status}|{h1:?}|{}|{l1}|{l2}|{applied:?}|{h2:?}", String::from_utf8_lossy(&out))
}

pub fn check_action(action: &Action) -> Vec<(String, String)> {
    let mut out = Vec::new();
    let s1 = match serde_json::to_string(action) {
        Ok(s) => s,
        Err(e) => return vec![("action-does-not-serialise".into(), e.to_string())],
    };
    let restored: Action = match serde_json::from_str(&s1) {
        Ok(a) => a,
        Err(e) => return vec![("action-json-does-not-deserialise".into(), format!("{e}: {s1}"))],
    };
    let s2 = serde_json::to_string(&restored).unwrap_or_default();
    if s1 != s2 {
        out.push(("reserialisation-differs".into(), format!("{s1} -> {s2}")));
    }
    let variants: Vec<(&str, Action)> = match ffi_action_roundtrip(action) {
        None => {
            out.push(("ffi-roundtrip-failed".into(), format!("extern C serialise/deserialise returned null for {s1}")));
            vec![("serde", restored)]
        }
        Some((fs, fa)) => {
            if fs != s1 {
                out.push(("ffi-serialisation-differs".into(), format!("{fs} vs {s1}")));
            }
            vec![("serde", restored), ("ffi", fa)]
        }
    };
    for (via, r) in &variants {
        'outer: for c in [0u16, 200, 301, 404, 500] {
            for h in header_lists() {
                for b in BODIES {
                    for pre_used in [false, true] {
                        let o1 = obs_ext(action, c, &h, b, pre_used);
                        let o2 = obs_ext(r, c, &h, b, pre_used);
                        if o1 != o2 {
                            out.push((
                                format!("behaviour-differs-after-roundtrip:{via}"),
                                format!("code {c} headers {h:?}: original observes {o1}, restored observes {o2}; json {s1}"),
                            ));
                            break 'outer;
                        }
                    }
                }
            }
        }
    }
    // hand-off after partial use: the applied-rule list travels with the action
    let mut used = action.clone();
    used.get_status_code(0, None);
    used.filter_headers(vec![], 404, false, None);
    let su = serde_json::to_string(&used).unwrap_or_default();
    match serde_json::from_str::<Action>(&su) {
        Err(e) => out.push(("used-action-json-does-not-deserialise".into(), format!("{e}: {su}"))),
        Ok(ru) => {
            // the restored copy continues where the original stopped, for the same code AND for others (what was applied so far
            // is part of the action's state)
            for c in [404u16, 200, 0, 500] {
                let o1 = obs_ext(&used, c, &base_headers(), PROBE_BODY, false);
                let o2 = obs_ext(&ru, c, &base_headers(), PROBE_BODY, false);
                if o1 != o2 {
                    out.push(("behaviour-differs-after-roundtrip:used-action".into(), format!("after get_status_code(0) and filter_headers(404), continuing with code {c}: {o1} vs {o2}; json {su}")));
                    break;
                }
            }
        }
    }
    out
}

/// rules with hand-built body filters: every optional field absent/present, text and HTML variants
pub fn body_filter_rules() -> Vec<Value> {
    let mut filters: Vec<Value> = Vec::new();
    for action in ["append_child", "prepend_child", "replace", "bogus", "append_text"] {
        for selector in [Value::Null, json!("b"), json!("")] {
            for inner in [Value::Null, json!("in")] {
                for id in [Value::Null, json!("unit-1")] {
                    filters.push(json!({"action": action, "value": "<i>V</i>", "inner_value": inner, "element_tree": ["html", "body"], "css_selector": selector,
                        "id": id, "target_hash": id}));
                }
            }
        }
    }
    filters.push(json!({"action": "replace", "value": "", "inner_value": null, "element_tree": [], "css_selector": null, "id": null, "target_hash": null}));
    for action in ["append_text", "prepend_text", "replace_text"] {
        for id in [Value::Null, json!("unit-2")] {
            filters.push(json!({"action": action, "content": "T", "id": id, "target_hash": id}));
            filters.push(json!({"action": action, "content": "", "id": id, "target_hash": null}));
        }
    }
    let mut rules = Vec::new();
    for (i, f) in filters.iter().enumerate() {
        for cond in [Cond::None, Cond::Exclude404] {
            let shape = Shape { cond, control: Control::Plain, payload: Payload::HeaderAdd };
            let mut r = shape.to_rule_json("a", 1, "/p");
            r["body_filters"] = json!([f]);
            if i % 2 == 0 {
                // a second filter of the other family in the same rule
                r["body_filters"] = json!([f, {"action": "append_text", "content": "Z", "id": null, "target_hash": null}]);
            }
            r["redirect_unit_id"] = json!("ru");
            r["configuration_log_unit_id"] = json!("lu");
            r["target_hash"] = json!("th");
            rules.push(r);
        }
    }
    rules
}

pub fn request_router(cfg: &Cfg) -> (Router<Rule>, RouterConfig) {
    let rc = cfg.to_router_config();
    let mut router = Router::<Rule>::from_config(rc.clone());
    let mut seen = std::collections::BTreeSet::new();
    for spec in super::c02::universe().iter().skip(1) {
        if seen.insert(spec.id.clone()) {
            router.insert(spec.to_rule());
        }
    }
    (router, rc)
}

pub fn check_request(router: &Router<Rule>, req: &Request) -> Vec<(String, String)> {
    let mut out = Vec::new();
    let s1 = match serde_json::to_string(req) {
        Ok(s) => s,
        Err(e) => return vec![("request-does-not-serialise".into(), e.to_string())],
    };
    let restored: Request = match serde_json::from_str(&s1) {
        Ok(r) => r,
        Err(e) => return vec![("request-json-does-not-deserialise".into(), format!("{e}: {s1}"))],
    };
    let s2 = serde_json::to_string(&restored).unwrap_or_default();
    if s1 != s2 {
        out.push(("request-reserialisation-differs".into(), format!("{s1} -> {s2}")));
    }
    let want = ids_of(&router.match_request(req));
    let got = ids_of(&router.match_request(&restored));
    if want != got {
        out.push(("restored-request-matches-differently:serde".into(), format!("{s1}: original matches {want:?}, restored matches {got:?}")));
    }
    match ffi_request_roundtrip(req) {
        None => out.push(("ffi-request-roundtrip-failed".into(), s1.clone())),
        Some((fs, fr)) => {
            if fs != s1 {
                out.push(("ffi-request-serialisation-differs".into(), format!("{fs} vs {s1}")));
            }
            let got = ids_of(&router.match_request(&fr));
            if want != got {
                out.push(("restored-request-matches-differently:ffi".into(), format!("{s1}: original matches {want:?}, restored matches {got:?}")));
            }
        }
    }
    out
}

pub fn extended_request(probe: &crate::universe::Probe, rc: &RouterConfig, ext: u8) -> Request {
    let mut r = probe.to_request(rc);
    match ext {
        1 => {
            // IPv6, sub-second timestamp, non-ASCII header, sampling override
            r.remote_addr = Some("2001:db8::1".parse().unwrap());
            r.created_at = Some("2024-03-05T10:00:00.123456789Z".parse().unwrap());
            r.add_header("X-Ünï".into(), "vålue \"q\" \\ \u{1F600}".into(), false);
            r.sampling_override = Some(true);
        }
        2 => {
            r.host = None;
            r.scheme = None;
            r.method = None;
            r.remote_addr = None;
            r.created_at = None;
            r.path_and_query = None;
        }
        // IPv4-mapped IPv6 client addresses (what a dual-stack proxy reports)
        3 => r.remote_addr = Some("::ffff:10.0.0.1".parse().unwrap()),
        4 => r.remote_addr = Some("::ffff:8.8.8.8".parse().unwrap()),
        // instants a fraction of a millisecond / a nanosecond away from the probe's instant (which the probe space
        // puts ON the boundaries of the date / time windows of the rules): a representation that rounds or
        // truncates the timestamp moves the request across a boundary
        5 => r.created_at = r.created_at.map(|t| t - chrono::Duration::microseconds(400)),
        6 => r.created_at = r.created_at.map(|t| t - chrono::Duration::nanoseconds(1)),
        7 => r.created_at = r.created_at.map(|t| t + chrono::Duration::microseconds(999_600)),
        8 => r.created_at = r.created_at.map(|t| t + chrono::Duration::nanoseconds(999_999_999)),
        // many headers: 130 / 1 100 fillers BEFORE the probe's own headers (the ones the rules look at come last)
        // no authority, but a Host header naming a host some rules are bound to
        11 => {
            r.host = None;
            r.headers.insert(0, Header { name: "Host".into(), value: "a.example".into() });
        }
        9 | 10 => {
            let own: Vec<Header> = r.headers.clone();
            r.headers.clear();
            for i in 0..(if ext == 9 { 130 } else { 1100 }) {
                r.headers.push(Header { name: format!("F{i}"), value: "filler".into() });
            }
            r.headers.extend(own);
        }
        _ => {}
    }
    r
}

/// rules whose computed header / body values have blank edges, are empty, or contain control characters: the
/// action built by the library holds them verbatim, and so must the restored one
pub fn edge_value_rules() -> Vec<Value> {
    let mut rules = Vec::new();
    for (i, v) in [" x", "x ", "\tx", "x\n", " ", "", "a  b", "\u{a0}x\u{a0}", "x\r\n y"].iter().enumerate() {
        let shape = Shape { cond: if i % 2 == 0 { Cond::None } else { Cond::Include404 }, control: Control::Plain, payload: Payload::Everything };
        let mut r = shape.to_rule_json("a", 1, "/p");
        r["target"] = json!(format!("/t{v}"));
        r["header_filters"] = json!([
            {"action": "add", "header": "X-Edge", "value": v, "id": null, "target_hash": null},
            {"action": "override", "header": format!("X-Name{v}"), "value": "n", "id": null, "target_hash": null}
        ]);
        r["body_filters"] = json!([
            {"action": "append_text", "content": v, "id": null, "target_hash": null},
            {"action": "append_child", "value": v, "inner_value": v, "element_tree": ["html", "body"], "css_selector": null, "id": null, "target_hash": null}
        ]);
        rules.push(r);
    }
    rules
}

#[derive(Clone, Debug, serde::Serialize, serde::Deserialize)]
pub enum Case {
    Shapes(super::c05::Case),
    RuleJson(Value, u16),
    /// (configuration bits, probe, extension: 0 none, 1 rich, 2 all-None, 3 / 4 IPv4-mapped addresses, 5-8 instants next to the probe's)
    Request(u32, crate::universe::Probe, u8),
}

pub fn check(case: &Case) -> Vec<(String, String)> {
    let rc = RouterConfig::default();
    match case {
        Case::Shapes(c) => {
            let (_, rules) = super::c05::build(c);
            let action = super::c05::action_for(c, &rules, &rc);
            check_action(&action)
        }
        Case::RuleJson(rule, _) => {
            let r: Rule = match serde_json::from_value(rule.clone()) {
                Ok(r) => r,
                Err(_) => return vec![],
            };
            let req = request_for(&rc, "/p", None);
            let action = Action::from_routes_rule(routes_of(&[r], &rc), &req, None);
            check_action(&action)
        }
        Case::Request(bits, probe, ext) => {
            let (router, rc) = request_router(&Cfg::from_bits(*bits));
            let req = extended_request(probe, &rc, *ext);
            check_request(&router, &req)
        }
    }
}

pub fn replay(case: &Value) -> Vec<String> {
    match serde_json::from_value::<Case>(case.clone()) {
        Ok(c) => {
            let prefix = if matches!(c, Case::RuleJson(..)) { "body-filter-shape:" } else { "" };
            check(&c).into_iter().map(|(s, _)| format!("{prefix}{s}")).collect()
        }
        Err(_) => vec![],
    }
}

pub fn run(tier: Tier) -> i32 {
    let ctx = Ctx::new("C06", tier, "exploration");
    let all = all_shapes();
    let core = core_shapes();
    let mut lists: Vec<Vec<Shape>> = vec![vec![]];
    lists.extend(super::c05::lists(&all, 1));
    // pairs: quick = every pair with at least one member in the core (every shape still meets every merge
    // situation the core distinguishes, in both priority positions); thorough = all pairs
    for l in super::c05::lists(&all, 2) {
        if tier == Tier::Thorough || core.contains(&l[0]) || core.contains(&l[1]) {
            lists.push(l);
        }
    }
    if tier == Tier::Thorough {
        lists.extend(super::c05::lists(&core, 3));
    }
    let distinct_json = DistinctSet::new();
    let samples = Samples::new(6);
    par_range(ctx.threads, lists.len(), |i| {
        for rank_pattern in [0usize, 1] {
            if lists[i].len() < 2 && rank_pattern > 0 {
                continue;
            }
            for sampling_override in OVERRIDES {
                let c5 = super::c05::Case { shapes: lists[i].clone(), rank_pattern, sampling_override, via_router: i % 16 == 0, rotation: i % 3 };
                let case = Case::Shapes(c5.clone());
                ctx.eval(1);
                let viol = crate::common::run_case(|| serde_json::to_value(&case).unwrap(), || check(&case));
                for (sig, what) in viol {
                    ctx.report(Violation { signature: sig, what, case: serde_json::to_value(&case).unwrap(), weight: lists[i].len() as u64 });
                }
                let (_, rules) = super::c05::build(&c5);
                let a = super::c05::action_for(&c5, &rules, &RouterConfig::default());
                let js = serde_json::to_string(&a).unwrap_or_default();
                if distinct_json.insert_str(&js) {
                    samples.offer(|| json!({"kind": "action", "json": js}));
                }
            }
        }
    });
    let mut bf = body_filter_rules();
    bf.extend(edge_value_rules());
    par_range(ctx.threads, bf.len(), |i| {
        let case = Case::RuleJson(bf[i].clone(), 0);
        ctx.eval(1);
        for (sig, what) in crate::common::run_case(|| serde_json::to_value(&case).unwrap(), || check(&case)) {
            ctx.report(Violation { signature: format!("body-filter-shape:{sig}"), what, case: serde_json::to_value(&case).unwrap(), weight: 1 });
        }
        let r: Rule = serde_json::from_value(bf[i].clone()).unwrap();
        let rc = RouterConfig::default();
        let a = Action::from_routes_rule(routes_of(&[r], &rc), &request_for(&rc, "/p", None), None);
        distinct_json.insert_str(&serde_json::to_string(&a).unwrap_or_default());
    });
    let actions = ctx.evaluations.load(std::sync::atomic::Ordering::Relaxed);
    // requests
    let req_distinct = DistinctSet::new();
    let cfg_bits: Vec<u32> = tier.pick(vec![0, 15], (0..16).collect());
    for bits in cfg_bits {
        let cfg = Cfg::from_bits(bits);
        let desc = json!({"kind": "c02-universe", "cfg_bits": [bits], "max_dev": tier.pick(2, 3)});
        let w = super::c02::world(&desc);
        let (router, rc) = request_router(&cfg);
        let around: Vec<usize> = (0..w.universe.len()).collect();
        let probes = w.probes(0, &around);
        par_range(ctx.threads, probes.len(), |pi| {
            let probe = w.space.probe(&probes[pi]);
            let exts: Vec<u8> = if pi % 5 == 0 { vec![0, 1, 2, 3, 4, 5, 6, 7, 8, 9, 11] } else if pi % 7 == 0 { vec![0, 5, 6, 7, 9, 10, 11] } else { vec![0, 5, 6, 7] };
            for ext in exts {
                let req = extended_request(&probe, &rc, ext);
                ctx.eval(1);
                req_distinct.insert_str(&serde_json::to_string(&req).unwrap_or_default());
                for (sig, what) in crate::common::run_case(|| serde_json::to_value(&Case::Request(bits, probe.clone(), ext)).unwrap(), || check_request(&router, &req)) {
                    ctx.report(Violation { signature: sig, what, case: serde_json::to_value(&Case::Request(bits, probe.clone(), ext)).unwrap(), weight: 1 });
                }
            }
        });
    }
    let total = ctx.evaluations.load(std::sync::atomic::Ordering::Relaxed);
    let mut cov = Coverage::new();
    cov.set("distinct_nontrivial", json!(distinct_json.len() + req_distinct.len()))
        .set("rule", json!("evaluations = actions + requests round-tripped (each action compared on 5 codes x 3 header lists x 2 bodies x fresh/pre-used, through serde and through the extern C functions); distinct_nontrivial = distinct serialised actions + distinct serialised requests"))
        .set("actions", json!(actions))
        .set("requests", json!(total - actions))
        .set("distinct_action_json", json!(distinct_json.len()))
        .set("distinct_request_json", json!(req_distinct.len()))
        .set("body_filter_shape_rules", json!(bf.len()))
        .set("samples", json!(samples.take()))
        .set("exhaustive", json!(true));
    cov.assume("actions are those the library itself builds from rules (the statement's domain), not arbitrary JSON");
    finish(&ctx, cov, &replay)
}
