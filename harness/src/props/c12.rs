//! C12 — regex caching is transparent: warming the cache never changes answers.
//!
//! Two explorations: (tree half) at every state of the C08 tree explorer, for every (limit, level) of a
//! grid, find() after cache == find() before, also when cache is called twice; (router half) at every
//! state of the C02 history explorer (which interleaves cache(n) with updates), match ids, captures and
//! canonical trace JSON are compared between a fresh uncached router, the history-shaped router and both
//! after cache(n) for n in {None, 0..N+1}.

use crate::common::{finish, Coverage, Ctx, Tier};
use crate::engines::bfs::explore;
use crate::engines::router_mc::{Checks, Model as RouterModel};
use crate::props::c08;
use serde_json::{json, Value};
use std::sync::atomic::Ordering;

const CHECKS: Checks = Checks { c01: false, c02: false, c12: true, c17: false };

pub fn replay(case: &Value) -> Vec<String> {
    if case.get("config").is_some() {
        c08::replay("C12", case)
    } else {
        super::c02::replay_with("C12", CHECKS, case)
    }
}

pub fn run(tier: Tier) -> i32 {
    let ctx = Ctx::new("C12", tier, "model_checking");
    let mut states = 0u64;
    let mut transitions = 0u64;
    let mut runs = Vec::new();
    let mut samples = Vec::new();
    let mut evaluations = 0u64;
    let mut outcomes = 0usize;
    // tree half
    let mut patterns: Vec<String> = c08::MAIN_PATTERNS[..tier.pick(7, 12)].iter().map(|s| s.to_string()).collect();
    // a pattern that does not compile (never matches, cached or not; must stay in the tree) and one that
    // starts with an upper-case literal
    patterns.push(r"/a/b/(".to_string());
    patterns.push(r"Abc/(?:[a-z]+)".to_string());
    for (unique, ignore_case) in [(false, false), (false, true), (true, false)] {
        let cfg = c08::Config { set: if unique { "main-unique".into() } else { "main".into() }, patterns: patterns.clone(), unique, ignore_case, second_ids: false, cache_ops: true };
        let model = c08::Model::new(&ctx, cfg.clone(), "C12", true);
        let depth = tier.pick(3, 4);
        let st = explore(&ctx, &model, depth);
        states += st.states;
        transitions += st.transitions;
        evaluations += model.cache_grid_checks.load(Ordering::Relaxed);
        outcomes += model.outcomes.len();
        samples.extend(model.samples.take().into_iter().rev().take(1));
        runs.push(json!({"half": "tree", "unique": unique, "ignore_case": ignore_case, "patterns": cfg.patterns.len(), "history_depth": depth,
            "states": st.states, "transitions": st.transitions, "cache_grid": "limit in {0,1,2,3,8} x level in {None,0,1,2,3}, each also applied twice",
            "grid_checks": model.cache_grid_checks.load(Ordering::Relaxed)}));
    }
    // router half
    let plans: Vec<(Vec<u32>, usize, usize)> = match tier {
        Tier::Quick => vec![(vec![15], 3, 1)],
        Tier::Thorough => vec![(vec![15, 0], 4, 1)],
    };
    for (cfg_bits, depth, max_dev) in plans {
        let desc = json!({"kind": "c02-universe", "cfg_bits": cfg_bits, "max_dev": max_dev});
        let w = super::c02::world(&desc);
        let mut model = RouterModel::new(&ctx, &w, CHECKS);
        model.cache_ops = true;
        let st = explore(&ctx, &model, depth);
        states += st.states;
        transitions += st.transitions;
        evaluations += model.match_calls.load(Ordering::Relaxed);
        outcomes += model.outcomes.len();
        samples.extend(model.samples.take().into_iter().rev().take(2));
        runs.push(json!({"half": "router", "world": desc, "history_depth": depth, "states": st.states, "transitions": st.transitions,
            "states_per_depth": st.states_per_depth, "probes_judged": model.match_calls.load(Ordering::Relaxed),
            "variants_per_state": "fresh, state, state.cache(n) and fresh.cache(n) for n in {None,0..3*|live|+2}, cache(1) twice, cache(1) then cache(None)"}));
    }
    let mut cov = Coverage::new();
    cov.set("states", json!(states))
        .set("transitions", json!(transitions))
        .set("traces_validated_against_impl", json!(transitions))
        .set("samples", json!(samples))
        .set("evaluations", json!(evaluations))
        .set("distinct_nontrivial", json!(outcomes))
        .set("rule", json!("evaluations = tree (state, limit, level) grid points + router (state, probe) pairs, each compared across all cache variants; distinct_nontrivial = distinct observation vectors"))
        .set("runs", json!(runs))
        .set("exhaustive", json!(true));
    cov.assume("observation = match ids, Route::capture maps of every matched route, trace JSON with hash-map-ordered arrays sorted")
        .assume("the capture regex shared between a clone and its original (Arc<RwLock<LazyRegex>>) may be compiled by a sibling branch; it is unobservable, which is what this property establishes against the fresh baseline");
    finish(&ctx, cov, &replay)
}
