//! C12 — regex caching is transparent: warming the cache never changes answers.
//!
//! Two explorations: (tree half) at every state of the C08 tree explorer, for every (limit, level) of a
//! grid, find() after cache == find() before, also when cache is called twice; (router half) at every
//! state of the C02 history explorer (which interleaves cache(n) with updates), match ids, captures and
//! canonical trace JSON are compared between a fresh uncached router, the history-shaped router and both
//! after cache(n) for n in {None, 0..N+1}.

use crate::common::{finish, Coverage, Ctx, Tier};
use crate::engines::bfs::explore;
use crate::engines::router_mc::{Checks, Model as RouterModel};
use crate::props::c08;
use serde_json::{json, Value};
use std::sync::atomic::Ordering;

const CHECKS: Checks = Checks { c01: false, c02: false, c12: true, c17: false };

// ------------------------------------------------------------------------------------------------
// Heavy patterns: expressions whose compiled program is large (counted repetition of a big Unicode class).
// The on-the-fly path and the warm-up path must build the SAME regex (same size limits, same flags).

pub const HEAVY_EXPRS: &[&str] = &[r"[\p{L}\p{N}]{1,40}", r"\w{1,30}", r"[\p{L}]{2,24}-[\p{N}]{1,12}"];
pub const HEAVY_HAYS: &[&str] = &["/u/jane42", "/u/jane42/x", "/u/", "/U/JANE42", "/u/élan-7", "/u/jane-42/x"];

/// one (expression, unique, ignore_case, limit, level) point: find on a never-warmed tree vs after cache(limit, level)
pub fn heavy_tree_point(expr: &str, unique: bool, ignore_case: bool, limit: u64, level: Option<u64>) -> Vec<(String, String)> {
    use redirectionio::regex_radix_tree::{RegexTreeMap, UniqueRegexTreeMap};
    let pats = [format!("/u/(?:{expr})"), format!("/u/(?:{expr})/x")];
    let mut out = Vec::new();
    let find_all = |f: &dyn Fn(&str) -> Vec<String>| -> Vec<Vec<String>> { HEAVY_HAYS.iter().map(|h| { let mut v = f(h); v.sort(); v }).collect() };
    let want: Vec<Vec<String>> = HEAVY_HAYS
        .iter()
        .map(|h| {
            let mut v: Vec<String> = pats
                .iter()
                .filter(|p| regex::RegexBuilder::new(&format!("^(?:{p})$")).case_insensitive(ignore_case).build().map(|r| r.is_match(h)).unwrap_or(false))
                .cloned()
                .collect();
            v.sort();
            v
        })
        .collect();
    let (cold, warm) = if unique {
        let mut t = UniqueRegexTreeMap::new(ignore_case);
        for p in &pats {
            t.insert(p, p.clone());
        }
        let cold = find_all(&|h| t.find(h).into_iter().cloned().collect());
        t.cache(limit, level);
        let warm = find_all(&|h| t.find(h).into_iter().cloned().collect());
        (cold, warm)
    } else {
        let mut t = RegexTreeMap::new(ignore_case);
        for p in &pats {
            t.insert(p, "id", p.clone());
        }
        let cold = find_all(&|h| t.find(h).into_iter().cloned().collect());
        t.cache(limit, level);
        let warm = find_all(&|h| t.find(h).into_iter().cloned().collect());
        (cold, warm)
    };
    if cold != warm {
        out.push((format!("heavy-pattern:tree-cache-changes-find:expr={expr}"), format!("patterns {pats:?} unique={unique} ignore_case={ignore_case}: find over {HEAVY_HAYS:?} before cache({limit}, {level:?}) = {cold:?}, after = {warm:?}")));
    }
    if cold != want {
        out.push((format!("heavy-pattern:uncached-find-differs-from-linear-scan:expr={expr}"), format!("patterns {pats:?} unique={unique} ignore_case={ignore_case}: never-warmed find = {cold:?}, linear scan = {want:?}")));
    }
    out
}

/// router with one rule whose marker is a heavy expression: match ids, Location and trace before / after cache(n)
pub fn heavy_router_point(expr: &str, ignore_case: bool, limit: Option<u64>) -> Vec<(String, String)> {
    use redirectionio::action::Action;
    use redirectionio::api::Rule;
    use redirectionio::http::Request;
    use redirectionio::router::Router;
    let mut rc = redirectionio::RouterConfig::default();
    rc.ignore_path_and_query_case = ignore_case;
    let rule: Rule = serde_json::from_value(json!({
        "id": "heavy", "source": {"scheme": null, "host": null, "ips": null, "path": "/u/@slug", "query": null, "headers": null, "methods": null, "exclude_methods": null,
            "response_status_codes": null, "exclude_response_status_codes": null, "sampling": null},
        "target": "/to/@slug", "status_code": 301, "rank": 1, "markers": [{"name": "slug", "regex": expr, "transformers": []}],
        "body_filters": null, "header_filters": null, "log_override": null, "reset": null, "stop": null, "examples": null,
        "redirect_unit_id": null, "configuration_log_unit_id": null, "configuration_reset_unit_id": null, "target_hash": null
    }))
    .expect("heavy rule");
    let mut router = Router::<Rule>::from_config(rc.clone());
    router.insert(rule);
    let observe = |r: &Router<Rule>| -> Vec<String> {
        HEAVY_HAYS
            .iter()
            .map(|h| {
                let mut q = Request::from_config(&rc, h.to_string(), Some("h.example".into()), Some("https".into()), None, None, None);
                q.created_at = None;
                let m = r.match_request(&q);
                let ids: Vec<String> = m.iter().map(|x| x.id().to_string()).collect();
                let mut a = Action::from_routes_rule(m, &q, None);
                let loc = a.filter_headers(vec![], 0, false, None).into_iter().find(|x| x.name == "Location").map(|x| x.value).unwrap_or_default();
                let traced = redirectionio::router::Trace::<Rule>::get_routes_from_traces(&r.trace_request(&q)).len();
                format!("{ids:?}|{loc}|traced={traced}")
            })
            .collect()
    };
    let cold = observe(&router);
    router.cache(limit);
    let warm = observe(&router);
    let mut out = Vec::new();
    if cold != warm {
        out.push((format!("heavy-pattern:router-cache-changes-answers:expr={expr}"), format!("rule /u/@slug with slug={expr:?}, ignore_case={ignore_case}: observations over {HEAVY_HAYS:?} before cache({limit:?}) = {cold:?}, after = {warm:?}")));
    }
    out
}

// ------------------------------------------------------------------------------------------------
// Twin routers: two routers that differ ONLY in ignore_path_and_query_case hold the same marker rule and run
// the same script (insert, match, warm-up, match); every interleaving of the two scripts runs on a thread of
// its own. Each router's answers must be those of its own configuration whatever the other router did.

pub fn twin_router_run(order: &[usize]) -> Vec<(String, String)> {
    use redirectionio::api::Rule;
    use redirectionio::http::Request;
    use redirectionio::router::Router;
    let modes = [false, true];
    let rcs: Vec<redirectionio::RouterConfig> = modes
        .iter()
        .map(|m| {
            let mut rc = redirectionio::RouterConfig::default();
            rc.ignore_path_and_query_case = *m;
            rc
        })
        .collect();
    let mk = |id: &str, path: &str| -> Rule {
        serde_json::from_value(json!({
            "id": id, "source": {"scheme": null, "host": null, "ips": null, "path": path, "query": null, "headers": null, "methods": null, "exclude_methods": null,
                "response_status_codes": null, "exclude_response_status_codes": null, "sampling": null},
            "target": "/to/@id", "status_code": 301, "rank": 1, "markers": [{"name": "id", "regex": "[0-9]+", "transformers": []}],
            "body_filters": null, "header_filters": null, "log_override": null, "reset": null, "stop": null, "examples": null,
            "redirect_unit_id": null, "configuration_log_unit_id": null, "configuration_reset_unit_id": null, "target_hash": null
        }))
        .expect("twin rule")
    };
    let rules = [mk("cat", "/Catalog/@id"), mk("cat-edit", "/Catalog/@id/edit")];
    let pats = [r"^/Catalog/(?:[0-9]+)$", r"^/Catalog/(?:[0-9]+)/edit$"];
    let probes = ["/Catalog/7", "/catalog/7", "/CATALOG/7/EDIT", "/Catalog/7/edit", "/Catalog/x"];
    let mut routers: Vec<Router<Rule>> = rcs.iter().map(|rc| Router::<Rule>::from_config(rc.clone())).collect();
    let mut pos = [0usize; 2];
    let mut out = Vec::new();
    for (step, &w) in order.iter().enumerate() {
        match c08::TWIN_SCRIPT[pos[w]] {
            "insert" => {
                for r in &rules {
                    routers[w].insert(r.clone());
                }
            }
            "cache" => {
                routers[w].cache(None);
            }
            _ => {
                for p in probes {
                    let mut q = Request::from_config(&rcs[w], p.to_string(), Some("h.example".into()), Some("https".into()), None, None, None);
                    q.created_at = None;
                    let mut got: Vec<String> = routers[w].match_request(&q).iter().map(|x| x.id().to_string()).collect();
                    got.sort();
                    let mut want: Vec<String> = Vec::new();
                    for (i, pat) in pats.iter().enumerate() {
                        if regex::RegexBuilder::new(pat).case_insensitive(modes[w]).build().unwrap().is_match(p) {
                            want.push(rules[i].id.clone());
                        }
                    }
                    want.sort();
                    if got != want {
                        out.push((
                            "twin-routers:answers-depend-on-the-other-router".to_string(),
                            format!("two routers (ignore_path_and_query_case=false / true) holding /Catalog/@id and /Catalog/@id/edit; per-router script {:?} interleaved as {order:?}: at step {step} the ignore_case={} router matches {got:?} for {p:?}, its own configuration gives {want:?}", c08::TWIN_SCRIPT, modes[w]),
                        ));
                        return out;
                    }
                }
            }
        }
        pos[w] += 1;
    }
    out
}

fn on_own_thread<T: Send>(f: impl FnOnce() -> T + Send) -> Result<T, (String, String)> {
    match std::thread::scope(|s| s.spawn(|| crate::common::guarded(f)).join()) {
        Ok(r) => r,
        Err(_) => Err(("?".into(), "thread died".into())),
    }
}

/// heavy patterns + twin routers; returns the number of points executed
pub fn extra_passes(ctx: &Ctx) -> (u64, u64) {
    use crate::common::Violation;
    let mut points: Vec<Value> = Vec::new();
    for expr in HEAVY_EXPRS {
        for (unique, ic) in [(false, false), (false, true), (true, false)] {
            for limit in [1u64, 8] {
                for level in [None, Some(0u64)] {
                    points.push(json!({"heavy_tree": {"expr": expr, "unique": unique, "ignore_case": ic, "limit": limit, "level": level}}));
                }
            }
        }
        for ic in [false, true] {
            for limit in [None, Some(1u64)] {
                points.push(json!({"heavy_router": {"expr": expr, "ignore_case": ic, "limit": limit}}));
            }
        }
    }
    let heavy = points.len() as u64;
    for order in c08::interleavings(c08::TWIN_SCRIPT.len()) {
        points.push(json!({"twin_routers": {"order": order}}));
    }
    crate::common::par_range(ctx.threads, points.len(), |i| {
        for (sig, what) in replay_extra(&points[i]) {
            ctx.report(Violation { signature: sig, what, case: points[i].clone(), weight: 1 });
        }
    });
    (heavy, points.len() as u64 - heavy)
}

pub fn replay_extra(case: &Value) -> Vec<(String, String)> {
    let r = if let Some(h) = case.get("heavy_tree") {
        let (expr, unique, ic) = (h["expr"].as_str().unwrap_or("").to_string(), h["unique"].as_bool().unwrap_or(false), h["ignore_case"].as_bool().unwrap_or(false));
        let (limit, level) = (h["limit"].as_u64().unwrap_or(1), h["level"].as_u64());
        on_own_thread(move || heavy_tree_point(&expr, unique, ic, limit, level))
    } else if let Some(h) = case.get("heavy_router") {
        let (expr, ic, limit) = (h["expr"].as_str().unwrap_or("").to_string(), h["ignore_case"].as_bool().unwrap_or(false), h["limit"].as_u64());
        on_own_thread(move || heavy_router_point(&expr, ic, limit))
    } else if let Some(t) = case.get("twin_routers") {
        let order: Vec<usize> = serde_json::from_value(t["order"].clone()).unwrap_or_default();
        on_own_thread(move || twin_router_run(&order))
    } else {
        Ok(vec![])
    };
    match r {
        Ok(v) => v,
        Err((loc, msg)) => vec![(format!("panic:{loc}"), msg)],
    }
}

pub fn replay(case: &Value) -> Vec<String> {
    if case.get("heavy_tree").is_some() || case.get("heavy_router").is_some() || case.get("twin_routers").is_some() {
        return replay_extra(case).into_iter().map(|(s, _)| s).collect();
    }
    if case.get("config").is_some() {
        c08::replay("C12", case)
    } else {
        super::c02::replay_with("C12", CHECKS, case)
    }
}

pub fn run(tier: Tier) -> i32 {
    let ctx = Ctx::new("C12", tier, "model_checking");
    let mut states = 0u64;
    let mut transitions = 0u64;
    let mut runs = Vec::new();
    let mut samples = Vec::new();
    let mut evaluations = 0u64;
    let mut outcomes = 0usize;
    // tree half
    let mut patterns: Vec<String> = c08::MAIN_PATTERNS[..tier.pick(7, 12)].iter().map(|s| s.to_string()).collect();
    // a pattern that does not compile (never matches, cached or not; must stay in the tree) and one that
    // starts with an upper-case literal
    patterns.push(r"/a/b/(".to_string());
    patterns.push(r"Abc/(?:[a-z]+)".to_string());
    for (unique, ignore_case) in [(false, false), (false, true), (true, false)] {
        let cfg = c08::Config { set: if unique { "main-unique".into() } else { "main".into() }, patterns: patterns.clone(), unique, ignore_case, second_ids: false, cache_ops: true, insert_only: false, prefill: 0 };
        let model = c08::Model::new(&ctx, cfg.clone(), "C12", true);
        let depth = tier.pick(3, 4);
        let st = explore(&ctx, &model, depth);
        states += st.states;
        transitions += st.transitions;
        evaluations += model.cache_grid_checks.load(Ordering::Relaxed);
        outcomes += model.outcomes.len();
        samples.extend(model.samples.take().into_iter().rev().take(1));
        runs.push(json!({"half": "tree", "unique": unique, "ignore_case": ignore_case, "patterns": cfg.patterns.len(), "history_depth": depth,
            "states": st.states, "transitions": st.transitions, "cache_grid": "limit in {0,1,2,3,8} x level in {None,0,1,2,3}, each also applied twice",
            "grid_checks": model.cache_grid_checks.load(Ordering::Relaxed)}));
    }
    // letters with several case forms / non-ASCII cased letters in node prefixes, ignore-case tree (tree half, full grid)
    {
        let cfg = c08::Config { set: "case-folding".into(), patterns: c08::FOLD_PATTERNS.iter().map(|s| s.to_string()).collect(), unique: false, ignore_case: true, second_ids: false, cache_ops: true, insert_only: false, prefill: 0 };
        let model = c08::Model::new(&ctx, cfg.clone(), "C12", true);
        let depth = tier.pick(2, 3);
        let st = explore(&ctx, &model, depth);
        states += st.states;
        transitions += st.transitions;
        evaluations += model.cache_grid_checks.load(Ordering::Relaxed);
        outcomes += model.outcomes.len();
        runs.push(json!({"half": "tree, case folding", "patterns": cfg.patterns.len(), "history_depth": depth, "states": st.states, "transitions": st.transitions,
            "grid_checks": model.cache_grid_checks.load(Ordering::Relaxed)}));
    }
    // a node with many children from the start (tree half, full cache grid at every state)
    {
        let cfg = c08::Config { set: "wide".into(), patterns: (0..11).map(|i| format!(r"/w/(?:[a-z]+)/c{i}")).collect(), unique: false, ignore_case: false, second_ids: false, cache_ops: true, insert_only: false, prefill: 11 };
        let model = c08::Model::new(&ctx, cfg.clone(), "C12", true);
        let depth = tier.pick(2, 3);
        let st = explore(&ctx, &model, depth);
        states += st.states;
        transitions += st.transitions;
        evaluations += model.cache_grid_checks.load(Ordering::Relaxed);
        outcomes += model.outcomes.len();
        runs.push(json!({"half": "tree, wide node", "patterns": cfg.patterns.len(), "prefilled": 11, "history_depth": depth, "states": st.states, "transitions": st.transitions,
            "grid_checks": model.cache_grid_checks.load(Ordering::Relaxed)}));
    }
    // router half
    let plans: Vec<(Vec<u32>, usize, usize)> = match tier {
        Tier::Quick => vec![(vec![15], 3, 1)],
        Tier::Thorough => vec![(vec![15, 0], 4, 1)],
    };
    for (cfg_bits, depth, max_dev) in plans {
        let desc = json!({"kind": "c02-universe", "cfg_bits": cfg_bits, "max_dev": max_dev});
        let w = super::c02::world(&desc);
        let mut model = RouterModel::new(&ctx, &w, CHECKS);
        model.cache_ops = true;
        // quick tier: the variants that put a regex somewhere (dynamic path / host, lazy marker) plus r1a / r4a / r4b as
        // literal neighbours; rules that differ only in header / time triggers add nothing to what caching can change
        if tier == Tier::Quick {
            model.insertable = (0..w.universe.len()).filter(|i| ["r1", "r2", "r3", "r4", "r7", "r8", "r15"].contains(&w.universe[*i].id.as_str())).collect();
        }
        let st = explore(&ctx, &model, depth);
        states += st.states;
        transitions += st.transitions;
        evaluations += model.match_calls.load(Ordering::Relaxed);
        outcomes += model.outcomes.len();
        samples.extend(model.samples.take().into_iter().rev().take(2));
        runs.push(json!({"half": "router", "world": desc, "history_depth": depth, "states": st.states, "transitions": st.transitions,
            "states_per_depth": st.states_per_depth, "probes_judged": model.match_calls.load(Ordering::Relaxed),
            "variants_per_state": "fresh, state, state.cache(n) and fresh.cache(n) for n in {None,0..3*|live|+2}, cache(1) twice, cache(1) then cache(None)"}));
    }
    let (heavy_points, twin_points) = extra_passes(&ctx);
    evaluations += heavy_points + twin_points;
    runs.push(json!({"half": "heavy patterns", "expressions": HEAVY_EXPRS, "points": heavy_points, "what": "never-warmed vs warmed tree / router on expressions whose compiled program is large (on-the-fly and warm-up builds must agree)"}));
    runs.push(json!({"half": "twin routers", "interleavings": twin_points, "script_per_router": c08::TWIN_SCRIPT, "what": "two routers differing only in ignore_path_and_query_case, same marker rules, every interleaving of the two scripts on a thread of its own; every answer compared with the router's own configuration"}));
    let mut cov = Coverage::new();
    cov.set("states", json!(states))
        .set("transitions", json!(transitions))
        .set("traces_validated_against_impl", json!(transitions))
        .set("samples", json!(samples))
        .set("evaluations", json!(evaluations))
        .set("distinct_nontrivial", json!(outcomes))
        .set("rule", json!("evaluations = tree (state, limit, level) grid points + router (state, probe) pairs, each compared across all cache variants; distinct_nontrivial = distinct observation vectors"))
        .set("runs", json!(runs))
        .set("exhaustive", json!(true));
    cov.assume("observation = match ids, Route::capture maps of every matched route, trace JSON with hash-map-ordered arrays sorted")
        .assume("the capture regex shared between a clone and its original (Arc<RwLock<LazyRegex>>) may be compiled by a sibling branch; it is unobservable, which is what this property establishes against the fresh baseline");
    finish(&ctx, cov, &replay)
}
