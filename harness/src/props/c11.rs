//! C11 — rule application is deterministic under any match or insertion order.
//!
//! Engine E4: for every rule list over a 12-shape alphabet of conflicting effects and every rank-tie
//! pattern, ALL permutations of the matched list handed to Action::from_routes_rule and ALL insertion
//! orders into a Router (whose match order comes out of randomly seeded hash maps) must serialise to one
//! and the same action, applied in (rank desc, id desc) order.

use crate::common::{finish, par_range, permutations, Coverage, Ctx, DistinctSet, Samples, Tier, Violation};
use crate::effects::*;
use redirectionio::action::Action;
use redirectionio::api::Rule;
use redirectionio::router::Router;
use redirectionio::RouterConfig;
use serde_json::{json, Value};

pub fn alphabet() -> Vec<Shape> {
    use Cond::*;
    use Control::*;
    use Payload::*;
    vec![
        Shape { cond: None, control: Plain, payload: Redirect301 },
        Shape { cond: None, control: Plain, payload: Status404 },
        Shape { cond: None, control: Plain, payload: Everything },
        Shape { cond: Include404, control: Plain, payload: Redirect301 },
        Shape { cond: Exclude404, control: Plain, payload: Status404 },
        Shape { cond: None, control: Plain, payload: LogTrue },
        Shape { cond: None, control: Plain, payload: LogFalse },
        Shape { cond: Include404, control: Plain, payload: LogFalse },
        Shape { cond: None, control: Reset, payload: HeaderAdd },
        Shape { cond: None, control: Stop, payload: Redirect301 },
        Shape { cond: None, control: ResetStop, payload: Everything },
        Shape { cond: None, control: Plain, payload: BodyAppend },
    ]
}

#[derive(Clone, Debug, serde::Serialize, serde::Deserialize)]
pub struct Case {
    pub shapes: Vec<Shape>,
    pub rank_pattern: usize,
}

pub fn check_case(case: &Case, rc: &RouterConfig) -> (Vec<(String, String)>, u64) {
    let c5 = super::c05::Case { shapes: case.shapes.clone(), rank_pattern: case.rank_pattern, sampling_override: Option::None, via_router: false, rotation: 0 };
    let (spec, rules) = super::c05::build(&c5);
    let req = request_for(rc, "/p", None);
    let routes = routes_of(&rules, rc);
    let mut out = Vec::new();
    let mut evals = 0u64;
    let mut reference: Option<String> = Option::None;
    // short lists: every permutation; long lists (count thresholds): identity, reversal, rotations, an interleaving of the halves
    let n = rules.len();
    let perms: Vec<Vec<usize>> = if n <= 5 {
        permutations(n)
    } else {
        let id: Vec<usize> = (0..n).collect();
        let mut v = vec![id.clone(), id.iter().rev().copied().collect()];
        for k in [1usize, n / 2, n - 1, 64.min(n - 1)] {
            let mut r = id.clone();
            r.rotate_left(k);
            v.push(r);
        }
        v.push((0..n).map(|i| if i % 2 == 0 { i / 2 } else { n - 1 - i / 2 }).collect());
        v
    };
    for p in &perms {
        // permuted match list
        let permuted: Vec<_> = p.iter().map(|i| routes[*i].clone()).collect();
        let a = serde_json::to_string(&Action::from_routes_rule(permuted, &req, Option::None)).unwrap();
        evals += 1;
        match &reference {
            Option::None => reference = Some(a.clone()),
            Some(r) => {
                if *r != a {
                    out.push((
                        format!("match-order-changes-action:ranks={}", case.rank_pattern),
                        format!("rules {spec:?}: match order {p:?} gives {a}, order {:?} gives {r}", perms[0]),
                    ));
                }
            }
        }
        // permuted insertion order, match order decided by the router
        let mut router = Router::<Rule>::from_config(rc.clone());
        for i in p {
            router.insert(rules[*i].clone());
        }
        let matched = router.match_request(&req);
        if matched.len() != rules.len() {
            out.push(("router-lost-rule".to_string(), format!("router built in order {p:?} matched {} of {} rules", matched.len(), rules.len())));
        }
        let b = serde_json::to_string(&Action::from_routes_rule(matched, &req, Option::None)).unwrap();
        evals += 1;
        if Some(&b) != reference.as_ref() {
            out.push((
                format!("insertion-order-changes-action:ranks={}", case.rank_pattern),
                format!("rules {spec:?}: router built in order {p:?} gives {b}, direct call gives {}", reference.clone().unwrap_or_default()),
            ));
        }
    }
    // applied order
    if let Some(r) = &reference {
        let v: Value = serde_json::from_str(r).unwrap();
        let got: Vec<String> = v["rule_ids"].as_array().map(|a| a.iter().filter_map(|x| x.as_str().map(|s| s.to_string())).collect()).unwrap_or_default();
        let want = surviving_order(&spec, Option::None);
        if got != want {
            out.push((
                format!("applied-order:ranks={}", case.rank_pattern),
                format!("rules {spec:?}: rule_ids of the action are {got:?}, (rank desc, id desc) application gives {want:?}"),
            ));
        }
    }
    out.sort();
    out.dedup_by(|a, b| a.0 == b.0);
    (out, evals)
}

pub fn replay(case: &Value) -> Vec<String> {
    let case: Case = match serde_json::from_value(case.clone()) {
        Ok(c) => c,
        Err(_) => return vec![],
    };
    check_case(&case, &RouterConfig::default()).0.into_iter().map(|(s, _)| s).collect()
}

pub fn run(tier: Tier) -> i32 {
    let ctx = Ctx::new("C11", tier, "exploration");
    let rc = RouterConfig::default();
    let alpha = alphabet();
    let max = tier.pick(4, 5);
    let mut work: Vec<Vec<Shape>> = Vec::new();
    for len in 1..=max {
        work.extend(super::c05::lists(&alpha, len));
    }
    work.extend(super::c05::long_lists());
    let distinct_actions = DistinctSet::new();
    let order_sensitive = DistinctSet::new();
    let samples = Samples::new(5);
    par_range(ctx.threads, work.len(), |i| {
        let shapes = &work[i];
        for rank_pattern in 0..4 {
            if shapes.len() == 1 && rank_pattern > 0 {
                continue;
            }
            let case = Case { shapes: shapes.clone(), rank_pattern };
            let mut evals = 0u64;
            let viol = crate::common::run_case(|| serde_json::to_value(&case).unwrap(), || {
                let (v, e) = check_case(&case, &rc);
                evals = e;
                v
            });
            ctx.eval(evals);
            for (sig, what) in viol {
                ctx.report(Violation { signature: sig, what, case: serde_json::to_value(&case).unwrap(), weight: shapes.len() as u64 });
            }
            // non-trivial: at least two rules with conflicting effects (two status / two log / two Location writers)
            let conflicting = shapes.iter().filter(|s| s.status().is_some()).count() >= 2 || shapes.iter().filter(|s| s.log().is_some()).count() >= 2;
            if conflicting {
                order_sensitive.insert_str(&format!("{shapes:?}{rank_pattern}"));
            }
            if i % 11 == 0 && shapes.len() <= IDS.len() {
                let mut spec = Vec::new();
                for (k, s) in shapes.iter().enumerate() {
                    spec.push((IDS[k].to_string(), rank_of(rank_pattern, k), *s));
                }
                if distinct_actions.insert_str(&format!("{:?}", surviving_order(&spec, None))) {
                    samples.offer(|| json!({"rules": format!("{spec:?}"), "application_order": surviving_order(&spec, None), "permutations": permutations(shapes.len()).len()}));
                }
            }
        }
    });
    let mut cov = Coverage::new();
    cov.set("distinct_nontrivial", json!(order_sensitive.len()))
        .set("rule", json!("evaluations = serialised actions computed (one per permutation of the match list and one per insertion order); distinct_nontrivial = distinct (rule list, rank pattern) cases with at least two rules writing the same effect (status / Location / log), where order can matter"))
        .set("rule_lists", json!(work.len()))
        .set("samples", json!(samples.take()))
        .set("exhaustive", json!(true))
        .set("bound", json!(format!("all lists of <= {max} rules over 12 conflicting shapes x 4 rank patterns (distinct, all tied, first two tied, ascending); all permutations (<= {max}!) of match list and of insertion order")));
    cov.assume("sampling disabled (the statement's precondition)");
    finish(&ctx, cov, &replay)
}
