//! C02 — incremental rule updates are equivalent to rebuilding; clones are isolated.
//!
//! Engine E1 with all operations (insert, remove, batch_remove, change-set through
//! RuleChangeSet::update_existing_router, cache) over a narrow, collision-rich universe in which several
//! variants share an id (so an update moves a rule between buckets / between the static map and the tree).

use crate::common::{finish, Coverage, Ctx, Tier};
use crate::engines::bfs::explore;
use crate::engines::router_mc::{replay_history, Checks, Model, Op, World};
use crate::universe::{Cfg, HeaderCond, RuleSpec};
use serde_json::{json, Value};
use std::sync::atomic::Ordering;

pub const CHECKS: Checks = Checks { c01: false, c02: true, c12: false, c17: false };

fn hc(kind: &str, name: &str, value: Option<&str>) -> HeaderCond {
    HeaderCond { kind: kind.into(), name: name.into(), value: value.map(|v| v.to_string()) }
}

pub fn universe() -> Vec<RuleSpec> {
    let mut v = Vec::new();
    let mk = |id: &str, label: &str| {
        let mut r = RuleSpec::base(id);
        r.label = label.to_string();
        r
    };
    // r1: static <-> dynamic with the same id
    v.push(mk("r1", "r1a static /a"));
    let mut r = mk("r1", "r1b dynamic /a/@m");
    r.path = "/a/@m".into();
    r.markers.push(("m".into(), "[a-z]+".into()));
    v.push(r);
    // r2 shares a tree node with r1b
    let mut r = mk("r2", "r2 dynamic /a/@m/B (upper-case literal)");
    r.path = "/a/@m/B".into();
    r.markers.push(("m".into(), "[a-z]+".into()));
    v.push(r);
    // r3 dynamic host
    let mut r = mk("r3", "r3 dynamic host @h.Example (upper-case literal)");
    r.host = Some("@h.Example".into());
    r.markers.push(("h".into(), "(cat|dog)".into()));
    v.push(r);
    // r4 lives in several buckets at once
    let mut r = mk("r4", "r4a host+2 overlapping cidrs+methods[GET,POST]");
    r.host = Some("a.example".into());
    r.ips = Some(vec![(true, "10.0.0.0/8".into()), (true, "10.1.0.0/16".into())]);
    r.methods = Some(vec!["GET".into(), "POST".into()]);
    v.push(r);
    let mut r = mk("r4", "r4b host+headers{X=v,Y defined}");
    r.host = Some("a.example".into());
    r.headers = vec![hc("is_equals", "X", Some("v")), hc("is_defined", "Y", None)];
    v.push(r);
    // r5 shares a header condition with r4b
    let mut r = mk("r5", "r5 headers{X=v,Y not defined}");
    r.headers = vec![hc("is_equals", "X", Some("v")), hc("is_not_defined", "Y", None)];
    v.push(r);
    // r6 scheme + excluded method + time window
    let mut r = mk("r6", "r6 https+exclude[GET]+time[09,17)");
    r.scheme = Some("https".into());
    r.methods = Some(vec!["GET".into()]);
    r.exclude_methods = Some(true);
    r.time = Some(vec![(Some("09:00:00".into()), Some("17:00:00".into()))]);
    v.push(r);
    // r7 dynamic host with a second expression (same literal suffix) and a dynamic path
    let mut r = mk("r7", "r7 dynamic host Shop-@g.example (starts upper-case) & dynamic path /a/@n");
    r.host = Some("Shop-@g.example".into());
    r.markers.push(("g".into(), "[a-z]+".into()));
    r.path = "/a/@n".into();
    r.markers.push(("n".into(), "[0-9a-z]+".into()));
    v.push(r);
    // r8 lazy marker: the capture depends on the end anchor of the capture regex
    let mut r = mk("r8", "r8 dynamic /a/@z lazy .+?");
    r.path = "/a/@z".into();
    r.markers.push(("z".into(), ".+?".into()));
    v.push(r);
    // r9 / r10: the same static path in the same time group (one bucket holding two routes)
    for id in ["r9", "r10"] {
        let mut r = mk(id, &format!("{id} static /a + time[09,17)"));
        r.time = Some(vec![(Some("09:00:00".into()), Some("17:00:00".into()))]);
        v.push(r);
    }
    // r11: a weekdays group next to the time group
    let mut r = mk("r11", "r11 static /a + weekdays[Mon,Tue]");
    r.weekdays = Some(vec!["Mon".into(), "Tue".into()]);
    v.push(r);
    // r12: its only header condition is one r5 also has, in the SAME header matcher (r5 and r12 have no host): the
    // per-matcher condition table is shared between the two groups, removing one rule must not touch the other
    let mut r = mk("r12", "r12 headers{X=v} (condition shared with r5 in one matcher)");
    r.headers = vec![hc("is_equals", "X", Some("v"))];
    v.push(r);
    // r14: the same ip constraint twice (in two spellings) and the same method twice: the route reaches its bucket several times
    let mut r = mk("r14", "r14 static /a + ips[10.0.0.1, 10.0.0.1/32] + methods[GET,GET]");
    r.ips = Some(vec![(true, "10.0.0.1".into()), (true, "10.0.0.1/32".into())]);
    r.methods = Some(vec!["GET".into(), "GET".into()]);
    v.push(r);
    // r15: a header pattern with an upper-case literal (under ignore_header_case the request value arrives lower-cased: the pattern must then be read without regard to case)
    let mut r = mk("r15", "r15 headers{X match_regex V@m}");
    r.headers = vec![hc("match_regex", "X", Some("V@m"))];
    r.markers.push(("m".into(), "[0-9]+".into()));
    v.push(r);
    // r16 / r17: two rules on ONE dynamic host pattern under a scheme no other rule uses (the host layer of that scheme holds one
    // pattern and two routes)
    for (id, path) in [("r16", "/a"), ("r17", "/b")] {
        let mut r = mk(id, &format!("{id} http + dynamic host @h.two.example + {path}"));
        r.scheme = Some("http".into());
        r.host = Some("@h.two.example".into());
        r.markers.push(("h".into(), "(cat|dog)".into()));
        r.path = path.into();
        v.push(r);
    }
    // r18: a group of TWO date/time conditions, one shared with the time group (r9 / r10) and one with the weekdays group (r11)
    let mut r = mk("r18", "r18 static /a + time[09,17) + weekdays[Mon,Tue]");
    r.time = Some(vec![(Some("09:00:00".into()), Some("17:00:00".into()))]);
    r.weekdays = Some(vec!["Mon".into(), "Tue".into()]);
    v.push(r);
    // r19: an ip bucket whose only rule has an EXCLUDED method list (no plain-method or method-less rule next to it)
    let mut r = mk("r19", "r19 static /a + ip 10/8 + exclude[GET]");
    r.ips = Some(vec![(true, "10.0.0.0/8".into())]);
    r.methods = Some(vec!["GET".into()]);
    r.exclude_methods = Some(true);
    v.push(r);
    // r20 / r21: two pattern rules whose expressions are equal up to the CASE OF AN ESCAPE (\d / \D mean opposite things, also when
    // the router ignores case)
    for (id, expr) in [("r20", r"\d+"), ("r21", r"\D+")] {
        let mut r = mk(id, &format!("{id} dynamic /a/i-@c with c = {expr}"));
        r.path = "/a/i-@c".into();
        r.markers.push(("c".into(), expr.to_string()));
        v.push(r);
    }
    // r13: the empty host is legal and means "any host"
    let mut r = mk("r13", "r13 host \"\" (any host) static /a");
    r.host = Some(String::new());
    v.push(r);
    v
}

pub fn world(desc: &Value) -> World {
    let max_dev = (desc["max_dev"].as_u64().unwrap_or(1) % 10) as usize;
    let cfgs: Vec<Cfg> = desc["cfg_bits"].as_array().map(|a| a.iter().map(|b| Cfg::from_bits(b.as_u64().unwrap_or(0) as u32)).collect()).unwrap_or_else(|| vec![Cfg::from_bits(8)]);
    World::new(universe(), cfgs, max_dev, desc.clone())
}

// ------------------------------------------------------------------------------------------------
// Count thresholds on change-sets: routers of 100 / 128 / 130 / 300 rules (one static path each) updated through
// RuleChangeSet::update_existing_router with change-sets as large as the router, or larger, that still leave live rules untouched
// (deleted ids the router does not hold, an id listed twice, an id both deleted and updated, non-live ids among the updated).

/// (signature, description) per violation of one (n, shape) case
pub fn many_change_set_case(n: usize, shape: usize) -> Vec<(String, String)> {
    use redirectionio::api::{Rule, RuleChangeSet};
    use redirectionio::http::Request;
    use redirectionio::router::Router;
    use std::collections::BTreeMap;
    let rc = redirectionio::RouterConfig::default();
    let mk = |id: &str, path: &str, target: &str| -> Rule {
        let mut r = RuleSpec::base(id);
        r.path = path.to_string();
        let mut v = r.to_json();
        v["target"] = json!(target);
        v["status_code"] = json!(301);
        serde_json::from_value(v).expect("rule")
    };
    let id = |i: usize| format!("m{i:03}");
    let mut router = Router::<Rule>::from_config(rc.clone());
    let mut live: BTreeMap<String, (String, String)> = BTreeMap::new();
    for i in 0..n {
        router.insert(mk(&id(i), &format!("/m/{i}"), "/v1"));
        live.insert(id(i), (format!("/m/{i}"), "/v1".to_string()));
    }
    let ghosts: Vec<String> = (0..n).map(|i| format!("ghost{i}")).collect();
    let (added, updated, deleted): (Vec<Rule>, Vec<Rule>, Vec<String>) = match shape {
        // all but two live ids deleted, padded with ids the router does not hold, one rule added
        0 => (vec![mk("new", "/m/new", "/v1")], vec![], (0..n - 2).map(id).chain(ghosts.iter().take(2).cloned()).collect()),
        // half of the live ids, each listed twice
        1 => (vec![], vec![], (0..n / 2).map(id).chain((0..n / 2).map(id)).collect()),
        // as many deleted ids as the router holds rules, none of them live
        2 => (vec![], vec![], ghosts.clone()),
        // half of the live ids updated (new target) and also listed as deleted (the update wins: it is inserted after the removal)
        3 => (vec![], (0..n / 2).map(|i| mk(&id(i), &format!("/m/{i}"), "/v2")).collect(), (0..n / 2).map(id).collect()),
        // non-live ids among the updated (they are simply inserted), as many as the router holds rules
        _ => (vec![], (0..n).map(|i| mk(&format!("up{i}"), &format!("/u/{i}"), "/v2")).collect(), vec![]),
    };
    for d in &deleted {
        live.remove(d);
    }
    for r in updated.iter().chain(added.iter()) {
        live.insert(r.id.clone(), (r.source.path.clone(), r.target.clone().unwrap_or_default()));
    }
    let shared = std::sync::Arc::new(router);
    let before: Vec<usize> = (0..n).map(|i| shared.match_request(&Request::from_config(&rc, format!("/m/{i}"), None, None, None, None, None)).len()).collect();
    let cs = RuleChangeSet { added, updated, deleted: deleted.into_iter().collect() };
    let result = cs.update_existing_router(shared.clone());
    let mut out = Vec::new();
    let tag = format!("many-rules-change-set:n={n}:shape={shape}");
    if result.len() != live.len() {
        out.push((format!("{tag}:len"), format!("len() is {} after the change-set, {} rules are live", result.len(), live.len())));
    }
    let mut paths: Vec<String> = (0..n).map(|i| format!("/m/{i}")).collect();
    paths.push("/m/new".into());
    paths.extend((0..n).map(|i| format!("/u/{i}")));
    for p in &paths {
        let req = Request::from_config(&rc, p.clone(), None, None, None, None, None);
        let mut got: Vec<(String, String)> = result.match_request(&req).iter().map(|r| (r.id().to_string(), r.handler().target.clone().unwrap_or_default())).collect();
        got.sort();
        let mut want: Vec<(String, String)> = live.iter().filter(|(_, (path, _))| path == p).map(|(i, (_, t))| (i.clone(), t.clone())).collect();
        want.sort();
        if got != want {
            out.push((format!("{tag}:differs-from-the-live-rules"), format!("request {p}: the updated router answers {got:?}, the live rules give {want:?}")));
            break;
        }
    }
    let after: Vec<usize> = (0..n).map(|i| shared.match_request(&Request::from_config(&rc, format!("/m/{i}"), None, None, None, None, None)).len()).collect();
    if before != after || shared.len() != n {
        out.push((format!("{tag}:original-router-changed"), format!("the shared original router answers differently after update_existing_router (len {} of {n})", shared.len())));
    }
    out
}

pub fn replay_with(prop: &'static str, checks: Checks, case: &Value) -> Vec<String> {
    if case["kind"] == "many-rules-change-set" {
        return many_change_set_case(case["n"].as_u64().unwrap_or(0) as usize, case["shape"].as_u64().unwrap_or(0) as usize).into_iter().map(|(s, _)| s).collect();
    }
    let ctx = Ctx::new(prop, Tier::Quick, "model_checking");
    let w = world(&case["world"]);
    let history: Vec<Op> = match serde_json::from_value(case["history"].clone()) {
        Ok(h) => h,
        Err(_) => return vec![],
    };
    let cfg = case["cfg_index"].as_u64().unwrap_or(0) as usize;
    if cfg >= w.cfgs.len() {
        return vec![];
    }
    replay_history(&ctx, &w, checks, cfg, &history);
    ctx.signatures()
}

pub fn replay(case: &Value) -> Vec<String> {
    replay_with("C02", CHECKS, case)
}

pub fn run_histories(prop: &'static str, checks: Checks, tier: Tier, plans: Vec<(Vec<u32>, usize, usize, bool)>) -> i32 {
    let ctx = Ctx::new(prop, tier, "model_checking");
    let mut states = 0u64;
    let mut transitions = 0u64;
    let mut match_calls = 0u64;
    let mut nonempty = 0u64;
    let mut outcomes = 0usize;
    let mut samples = Vec::new();
    let mut runs = Vec::new();
    let mut max_depth = 0;
    let mut many_cases = 0u64;
    if prop == "C02" {
        for n in [100usize, 128, 130, 300] {
            for shape in 0..5usize {
                many_cases += 1;
                let case = json!({"kind": "many-rules-change-set", "n": n, "shape": shape});
                for (sig, what) in crate::common::run_case(|| case.clone(), || many_change_set_case(n, shape)) {
                    ctx.report(crate::common::Violation { signature: sig, what, case: case.clone(), weight: (n * 10 + shape) as u64 });
                }
            }
        }
    }
    for (cfg_bits, depth, max_dev, cache_ops) in plans {
        let desc = json!({"kind": "c02-universe", "cfg_bits": cfg_bits, "max_dev": max_dev});
        let w = world(&desc);
        let mut model = Model::new(&ctx, &w, checks);
        model.cache_ops = cache_ops;
        // max_dev >= 10 marks a "core" plan: only the first variants (r1a .. r4b) plus r9 / r10 may be inserted, explored deeper
        let focus_ids = ["r19", "r20", "r21"];
        if max_dev >= 20 {
            // a "focus" plan: the late variants r19 .. r21 together with r1a / r6 / r14 (the general plans leave them out)
            model.insertable = (0..w.universe.len()).filter(|i| *i == 0 || ["r6", "r14"].contains(&w.universe[*i].id.as_str()) || focus_ids.contains(&w.universe[*i].id.as_str())).collect();
        } else if max_dev >= 10 {
            model.insertable = (0..w.universe.len()).filter(|i| *i <= 5 || w.universe[*i].id == "r9" || w.universe[*i].id == "r10").collect();
        } else {
            model.insertable = (0..w.universe.len()).filter(|i| !focus_ids.contains(&w.universe[*i].id.as_str())).collect();
        }
        let st = explore(&ctx, &model, depth);
        states += st.states;
        transitions += st.transitions;
        max_depth = max_depth.max(st.max_depth);
        match_calls += model.match_calls.load(Ordering::Relaxed);
        nonempty += model.nonempty.load(Ordering::Relaxed);
        outcomes += model.outcomes.len();
        samples.extend(model.samples.take().into_iter().rev().take(3));
        runs.push(json!({"world": desc, "universe_variants": w.universe.len(), "history_depth": depth, "completed_depth": st.completed_depth,
            "cache_ops": cache_ops, "states": st.states, "transitions": st.transitions, "states_per_depth": st.states_per_depth}));
    }
    let mut cov = Coverage::new();
    cov.set("states", json!(states))
        .set("transitions", json!(transitions))
        .set("traces_validated_against_impl", json!(transitions))
        .set("max_depth", json!(max_depth))
        .set("samples", json!(samples))
        .set("evaluations", json!(match_calls))
        .set("distinct_nontrivial", json!(outcomes))
        .set("rule", json!("evaluations = (state, probe) pairs; distinct_nontrivial = distinct vectors of match results over a state's probe set"))
        .set("nonempty_matches", json!(nonempty))
        .set("many_rules_change_set_cases", json!(many_cases))
        .set("runs", json!(runs))
        .set("op_alphabet", json!("insert(variant) / remove(live id | absent id) / batch_remove(pairs of live ids, live+absent) / change-set (update to the other variant of a live id, add+delete, add+update+delete, resubmission of the same version, delete of an absent id) via RuleChangeSet::update_existing_router / cache(None|1|2)"))
        .set("exhaustive", json!(true));
    cov.assume("live ids stay unique (the property's precondition): an id is inserted only when not live")
        .assume("every child state is derived by clone-then-mutate from its Arc-shared parent, whose snapshot is re-checked after the mutation");
    let p = prop;
    finish(&ctx, cov, &move |case| replay_with(p, checks, case))
}

pub fn run(tier: Tier) -> i32 {
    let plans = match tier {
        Tier::Quick => vec![(vec![7, 8], 4, 1, true), (vec![8, 7], 5, 11, true), (vec![7, 8], 4, 21, true)],
        Tier::Thorough => vec![(vec![8, 7, 0, 15], 5, 1, true), (vec![8, 7], 6, 11, true), (vec![8], 4, 2, true), (vec![7, 8, 0], 6, 21, true)],
    };
    run_histories("C02", CHECKS, tier, plans)
}
