//! C13 — header filters implement add / remove / replace / override / default exactly.
//!
//! Engine: exhaustive product enumeration: every header list of length <=3 over names {X,x,Y} x values
//! {a,""} crossed with every filter sequence of length <=2 (quick) / <=3 (thorough) over
//! {add, remove, replace, override, default, bogus} x names {X,x,Y,Z}; through FilterHeaderAction and
//! through a deserialised Action::filter_headers. Oracle: fold of five tiny reference operations.

use crate::common::{finish, par_range, Coverage, Ctx, DistinctSet, Samples, Tier, Violation};
use redirectionio::action::Action;
use redirectionio::api::HeaderFilter;
use redirectionio::filter::FilterHeaderAction;
use redirectionio::http::Header;
use serde_json::{json, Value};

pub const ACTIONS: &[&str] = &["add", "remove", "replace", "override", "default", "bogus"];
pub const FILTER_NAMES: &[&str] = &["X", "x", "Y", "Z"];
pub const HEADER_NAMES: &[&str] = &["X", "x", "Y"];
pub const HEADER_VALUES: &[&str] = &["a", ""];

pub type H = (String, String);

/// reference semantics, written from the property statement
pub fn reference_apply(action: &str, name: &str, value: &str, headers: Vec<H>) -> Vec<H> {
    let same = |h: &H| h.0.to_lowercase() == name.to_lowercase();
    match action {
        "add" => {
            let mut out = headers;
            out.push((name.to_string(), value.to_string()));
            out
        }
        "remove" => headers.into_iter().filter(|h| !same(h)).collect(),
        "replace" => headers.into_iter().map(|h| if same(&h) { (name.to_string(), value.to_string()) } else { h }).collect(),
        "override" => {
            let found = headers.iter().any(same);
            let mut out: Vec<H> = headers.into_iter().map(|h| if same(&h) { (name.to_string(), value.to_string()) } else { h }).collect();
            if !found {
                out.push((name.to_string(), value.to_string()));
            }
            out
        }
        "default" => {
            let found = headers.iter().any(same);
            let mut out = headers;
            if !found {
                out.push((name.to_string(), value.to_string()));
            }
            out
        }
        _ => headers,
    }
}

pub fn all_header_lists(max: usize) -> Vec<Vec<H>> {
    let mut singles = Vec::new();
    for n in HEADER_NAMES {
        for v in HEADER_VALUES {
            singles.push((n.to_string(), v.to_string()));
        }
    }
    let mut out: Vec<Vec<H>> = vec![vec![]];
    let mut layer: Vec<Vec<H>> = vec![vec![]];
    for _ in 0..max {
        let mut next = Vec::new();
        for l in &layer {
            for s in &singles {
                let mut n = l.clone();
                n.push(s.clone());
                next.push(n);
            }
        }
        out.extend(next.iter().cloned());
        layer = next;
    }
    out
}

#[derive(Clone, Debug, serde::Serialize, serde::Deserialize)]
pub struct F {
    pub action: String,
    pub header: String,
    pub value: String,
    /// the filter carries a unit id and the production target hash "header::<lower-cased name>" (must not change the result)
    #[serde(default)]
    pub hash: bool,
}

impl F {
    pub fn id(&self) -> Option<String> {
        if self.hash {
            Some(format!("unit-{}", self.action))
        } else {
            None
        }
    }
    pub fn target_hash(&self) -> Option<String> {
        if self.hash {
            Some(format!("header::{}", self.header.to_lowercase()))
        } else {
            None
        }
    }
    pub fn api(&self) -> HeaderFilter {
        HeaderFilter { action: self.action.clone(), header: self.header.clone(), value: self.value.clone(), id: self.id(), target_hash: self.target_hash() }
    }
}

/// second universe: names that are prefixes of one another (`X`, `X-Y`, `x-y-z`) and filters with / without the
/// production target hash
pub const PREFIX_HEADER_NAMES: &[&str] = &["X", "X-Y"];
pub const PREFIX_FILTER_NAMES: &[&str] = &["X", "x-y", "X-Y-Z"];

pub fn prefix_header_lists(max: usize) -> Vec<Vec<H>> {
    let mut out: Vec<Vec<H>> = vec![vec![]];
    let mut layer: Vec<Vec<H>> = vec![vec![]];
    for _ in 0..max {
        let mut next = Vec::new();
        for l in &layer {
            for n in PREFIX_HEADER_NAMES {
                let mut x = l.clone();
                x.push((n.to_string(), "a".to_string()));
                next.push(x);
            }
        }
        out.extend(next.iter().cloned());
        layer = next;
    }
    out
}

pub fn prefix_filter_sequences(max: usize) -> Vec<Vec<F>> {
    let mut singles = Vec::new();
    for (ai, a) in ACTIONS.iter().enumerate() {
        for (ni, n) in PREFIX_FILTER_NAMES.iter().enumerate() {
            for hash in [false, true] {
                singles.push(F { action: a.to_string(), header: n.to_string(), value: if (ai + ni) % 2 == 0 { "a".to_string() } else { format!("w{ai}{ni}") }, hash });
            }
        }
    }
    let mut out: Vec<Vec<F>> = vec![vec![]];
    let mut layer: Vec<Vec<F>> = vec![vec![]];
    for _ in 0..max {
        let mut next = Vec::new();
        for l in &layer {
            for s in &singles {
                let mut n = l.clone();
                n.push(s.clone());
                next.push(n);
            }
        }
        out.extend(next.iter().cloned());
        layer = next;
    }
    out
}

pub fn all_filter_sequences(max: usize) -> Vec<Vec<F>> {
    let mut singles = Vec::new();
    for (ai, a) in ACTIONS.iter().enumerate() {
        for (ni, n) in FILTER_NAMES.iter().enumerate() {
            // values overlap with the header values ("a", "") so that "already has this value" is reachable
            let value = match (ai + ni) % 3 {
                0 => "a".to_string(),
                1 => String::new(),
                _ => format!("v{ai}{ni}"),
            };
            singles.push(F { action: a.to_string(), header: n.to_string(), value, hash: false });
        }
    }
    let mut out: Vec<Vec<F>> = vec![vec![]];
    let mut layer: Vec<Vec<F>> = vec![vec![]];
    for _ in 0..max {
        let mut next = Vec::new();
        for l in &layer {
            for s in &singles {
                let mut n = l.clone();
                n.push(s.clone());
                next.push(n);
            }
        }
        out.extend(next.iter().cloned());
        layer = next;
    }
    out
}

fn to_headers(h: &[H]) -> Vec<Header> {
    h.iter().map(|(n, v)| Header { name: n.clone(), value: v.clone() }).collect()
}
fn from_headers(h: Vec<Header>) -> Vec<H> {
    h.into_iter().map(|h| (h.name, h.value)).collect()
}

/// An Action carrying exactly these header filters (unconditional), built through the public JSON form.
pub fn action_with_filters(filters: &[F]) -> Action {
    let hf: Vec<Value> = filters
        .iter()
        .map(|f| {
            json!({"filter": {"action": f.action, "header": f.header, "value": f.value, "id": f.id(), "target_hash": f.target_hash()},
                   "on_response_status_codes": [], "exclude_response_status_codes": false, "rule_id": null})
        })
        .collect();
    serde_json::from_value(json!({
        "status_code_update": null, "header_filters": hf, "body_filters": [], "rule_ids": [], "rule_traces": [], "rules_applied": [], "log_override": null
    }))
    .expect("action json")
}

/// the same filters, each admitted on response code 404 only (with a rule id, as a rule would give it)
pub fn action_with_filters_on_404(filters: &[F]) -> Action {
    let hf: Vec<Value> = filters
        .iter()
        .map(|f| {
            json!({"filter": {"action": f.action, "header": f.header, "value": f.value, "id": f.id().or(Some("unit-x".to_string())), "target_hash": f.target_hash()},
                   "on_response_status_codes": [404], "exclude_response_status_codes": false, "rule_id": "r404"})
        })
        .collect();
    serde_json::from_value(json!({
        "status_code_update": null, "header_filters": hf, "body_filters": [], "rule_ids": ["r404"],
        "rule_traces": [{"id": "r404", "on_response_status_codes": [404], "exclude_response_status_codes": false}], "rules_applied": [], "log_override": null
    }))
    .expect("action json")
}

pub fn check_case(headers: &[H], filters: &[F]) -> Vec<(String, String)> {
    let mut out = Vec::new();
    let mut want = headers.to_vec();
    for f in filters {
        want = reference_apply(&f.action, &f.header, &f.value, want);
    }
    let api_filters: Vec<HeaderFilter> = filters.iter().map(|f| f.api()).collect();
    let got1 = match FilterHeaderAction::new(api_filters) {
        None => headers.to_vec(),
        Some(a) => from_headers(a.filter(to_headers(headers), None)),
    };
    let culprit = |got: &Vec<H>| -> String {
        // name the first filter after which reference and implementation diverge
        let mut cur = headers.to_vec();
        for (i, f) in filters.iter().enumerate() {
            cur = reference_apply(&f.action, &f.header, &f.value, cur);
            let partial: Vec<HeaderFilter> = filters[..=i].iter().map(|f| f.api()).collect();
            let g = match FilterHeaderAction::new(partial) {
                None => headers.to_vec(),
                Some(a) => from_headers(a.filter(to_headers(headers), None)),
            };
            if g != cur {
                return f.action.clone();
            }
        }
        let _ = got;
        "sequence".to_string()
    };
    if got1 != want {
        out.push((format!("filter-header-action:{}", culprit(&got1)), format!("FilterHeaderAction gives {got1:?}, reference fold gives {want:?}")));
    }
    let mut action = action_with_filters(filters);
    let got2 = from_headers(action.filter_headers(to_headers(headers), 200, false, None));
    if got2 != want {
        out.push((format!("action-filter-headers:{}", culprit(&got2)), format!("Action::filter_headers gives {got2:?}, reference fold gives {want:?}")));
    }
    // the same with a unit trace (what the explain / test-example analyses pass): it must not change the headers
    let mut trace = redirectionio::action::UnitTrace::default();
    let mut action = action_with_filters(filters);
    let got3 = from_headers(action.filter_headers(to_headers(headers), 200, false, Some(&mut trace)));
    if got3 != want {
        out.push((format!("action-filter-headers-with-unit-trace:{}", culprit(&got3)), format!("Action::filter_headers(.., Some(trace)) gives {got3:?}, reference fold gives {want:?}")));
    }
    // filters of a rule that admits code 404 only: nothing happens on a 200 (with and without a unit trace), everything on a 404
    if !filters.is_empty() {
        let mut trace = redirectionio::action::UnitTrace::default();
        let mut action = action_with_filters_on_404(filters);
        let g200 = from_headers(action.filter_headers(to_headers(headers), 200, false, Some(&mut trace)));
        let mut action = action_with_filters_on_404(filters);
        let g200n = from_headers(action.filter_headers(to_headers(headers), 200, false, None));
        let mut action = action_with_filters_on_404(filters);
        let mut trace = redirectionio::action::UnitTrace::default();
        let g404 = from_headers(action.filter_headers(to_headers(headers), 404, false, Some(&mut trace)));
        if g200 != headers || g200n != headers {
            out.push(("action-filter-headers:filter-applied-on-a-code-its-rule-does-not-admit".to_string(), format!("filters admitted on 404 only, response code 200: with a unit trace {g200:?}, without {g200n:?}, incoming {headers:?}")));
        }
        if g404 != want {
            out.push((format!("action-filter-headers-with-unit-trace:{}:admitted-code", culprit(&g404)), format!("filters admitted on 404, response code 404 with a unit trace: {g404:?}, reference fold gives {want:?}")));
        }
    }
    // the same with the rule-ids header asked for: the filtered list is unchanged and ONE header is appended after it, whatever
    // the list already holds (a header of that name from the backend or from a filter is an ordinary header)
    let mut action = action_with_filters(filters);
    let mut got4 = from_headers(action.filter_headers(to_headers(headers), 200, true, None));
    let ids = action.get_applied_rule_ids().iter().cloned().collect::<Vec<String>>().join(";");
    let last = got4.pop();
    if got4 != want || last != Some(("X-RedirectionIo-RuleIds".to_string(), ids.clone())) {
        out.push((
            format!("action-filter-headers-with-rule-ids-header:{}", if got4 != want { "other-headers-changed" } else { "appended-header" }),
            format!("Action::filter_headers(.., add_rule_ids_header = true) gives {got4:?} followed by {last:?}; expected the reference fold {want:?} followed by (X-RedirectionIo-RuleIds, {ids:?})"),
        ));
    }
    out
}

/// fourth universe: the name of the rule-ids header itself, in two letter cases, in the incoming list and as a filter target
pub fn rule_ids_universe() -> (Vec<Vec<H>>, Vec<Vec<F>>) {
    let names = ["X-RedirectionIo-RuleIds", "x-redirectionio-ruleids", "X"];
    let mut lists: Vec<Vec<H>> = vec![vec![]];
    for a in names {
        lists.push(vec![(a.to_string(), "old".to_string())]);
        for b in names {
            lists.push(vec![(a.to_string(), "old".to_string()), (b.to_string(), "b".to_string())]);
            lists.push(vec![("Y".to_string(), "y".to_string()), (a.to_string(), "old".to_string()), (b.to_string(), "b".to_string())]);
        }
    }
    let mut singles: Vec<F> = Vec::new();
    for a in ACTIONS {
        for n in &names[..2] {
            singles.push(F { action: a.to_string(), header: n.to_string(), value: "f".to_string(), hash: false });
        }
    }
    let mut seqs: Vec<Vec<F>> = vec![vec![]];
    for s in &singles {
        seqs.push(vec![s.clone()]);
        for t in &singles {
            seqs.push(vec![s.clone(), t.clone()]);
        }
    }
    (lists, seqs)
}

pub fn known_names() -> Vec<&'static str> {
    vec![
        "Accept-Ranges", "Access-Control-Allow-Credentials", "Access-Control-Allow-Headers", "Access-Control-Allow-Methods", "Access-Control-Allow-Origin",
        "Access-Control-Expose-Headers", "Access-Control-Max-Age", "Age", "Allow", "Alt-Svc", "Cache-Control", "Clear-Site-Data", "Connection",
        "Content-Disposition", "Content-Encoding", "Content-Language", "Content-Length", "Content-Location", "Content-Range", "Content-Security-Policy",
        "Content-Security-Policy-Report-Only", "Content-Type", "Cross-Origin-Embedder-Policy", "Cross-Origin-Opener-Policy", "Cross-Origin-Resource-Policy",
        "Date", "ETag", "Expect-CT", "Expires", "Feature-Policy", "Keep-Alive", "Last-Modified", "Link", "Location", "NEL", "Origin-Agent-Cluster",
        "Permissions-Policy", "Pragma", "Proxy-Authenticate", "Public-Key-Pins", "Referrer-Policy", "Refresh", "Report-To", "Retry-After", "Server",
        "Server-Timing", "Set-Cookie", "SourceMap", "Strict-Transport-Security", "Timing-Allow-Origin", "Tk", "Trailer", "Transfer-Encoding", "Upgrade",
        "Vary", "Via", "WWW-Authenticate", "Warning", "X-Content-Type-Options", "X-DNS-Prefetch-Control", "X-Frame-Options", "X-Permitted-Cross-Domain-Policies",
        "X-Powered-By", "X-Request-Id", "X-Robots-Tag", "X-Runtime", "X-UA-Compatible", "X-XSS-Protection", "X-Cache", "X-Served-By", "X-Varnish", "X-Generator",
    ]
}

pub fn replay(case: &Value) -> Vec<String> {
    let headers: Vec<H> = serde_json::from_value(case["headers"].clone()).unwrap_or_default();
    let filters: Vec<F> = serde_json::from_value(case["filters"].clone()).unwrap_or_default();
    let suffix = match case["universe"].as_str() {
        Some("prefix") => ":prefix-names/target-hash",
        Some("twins") => ":names-differing-by-one-non-letter-bit",
        Some("long") => ":long-lists",
        Some("rule-ids") => ":rule-ids-header-name",
        Some("known") => ":many-known-names",
        _ => "",
    };
    check_case(&headers, &filters).into_iter().map(|(s, _)| format!("{s}{suffix}")).collect()
}

pub fn run(tier: Tier) -> i32 {
    let ctx = Ctx::new("C13", tier, "exploration");
    let lists = all_header_lists(3);
    let seqs = all_filter_sequences(tier.pick(3, 4));
    let outcomes = DistinctSet::new();
    let changed = DistinctSet::new();
    let samples = Samples::new(6);
    par_range(ctx.threads, seqs.len(), |i| {
        let filters = &seqs[i];
        for headers in &lists {
            ctx.eval(1);
            for (sig, what) in crate::common::run_case(|| json!({"headers": headers, "filters": filters}), || check_case(headers, filters)) {
                ctx.report(Violation {
                    signature: sig,
                    what,
                    case: json!({"headers": headers, "filters": filters}),
                    weight: (headers.len() + filters.len() * 4) as u64,
                });
            }
            let mut want = headers.clone();
            for f in filters {
                want = reference_apply(&f.action, &f.header, &f.value, want);
            }
            if &want != headers {
                changed.insert_str(&format!("{headers:?}{filters:?}"));
            }
            outcomes.insert_str(&format!("{want:?}"));
            if i % 97 == 3 && headers.len() == 3 {
                samples.offer(|| json!({"headers": headers, "filters": filters, "expected": want}));
            }
        }
    });
    // second universe: prefix-related names, filters with and without unit id / target hash
    let plists = prefix_header_lists(3);
    let pseqs = prefix_filter_sequences(tier.pick(3, 4).min(3));
    par_range(ctx.threads, pseqs.len(), |i| {
        let filters = &pseqs[i];
        for headers in &plists {
            ctx.eval(1);
            for (sig, what) in crate::common::run_case(|| json!({"headers": headers, "filters": filters, "universe": "prefix"}), || check_case(headers, filters)) {
                ctx.report(Violation {
                    signature: format!("{sig}:prefix-names/target-hash"),
                    what,
                    case: json!({"headers": headers, "filters": filters, "universe": "prefix"}),
                    weight: (headers.len() + filters.len() * 4) as u64,
                });
            }
            let mut want = headers.clone();
            for f in filters {
                want = reference_apply(&f.action, &f.header, &f.value, want);
            }
            if &want != headers {
                changed.insert_str(&format!("{headers:?}{filters:?}"));
            }
            outcomes.insert_str(&format!("{want:?}"));
        }
    });
    // fourth universe: the rule-ids header's own name
    let (rlists, rseqs) = rule_ids_universe();
    par_range(ctx.threads, rseqs.len(), |i| {
        let filters = &rseqs[i];
        for headers in &rlists {
            ctx.eval(1);
            for (sig, what) in crate::common::run_case(|| json!({"headers": headers, "filters": filters, "universe": "rule-ids"}), || check_case(headers, filters)) {
                ctx.report(Violation { signature: format!("{sig}:rule-ids-header-name"), what, case: json!({"headers": headers, "filters": filters, "universe": "rule-ids"}), weight: (headers.len() + filters.len() * 4) as u64 });
            }
        }
    });
    // fifth universe: 72 well-known response header names, all present; every ordered pair of DIFFERENT names with every pair
    // of operations (first op on the first name, second op on the second). More names than any small table of buckets / bits
    // has slots, so whatever a filter chain may derive from a name (a hash, a bit, a bucket), two names here share it
    let known = known_names();
    let known_headers: Vec<H> = known.iter().enumerate().map(|(i, n)| (n.to_string(), format!("v{i}"))).collect();
    let pairs: Vec<(usize, usize)> = (0..known.len()).flat_map(|a| (0..known.len()).filter(move |b| *b != a).map(move |b| (a, b))).collect();
    par_range(ctx.threads, pairs.len(), |i| {
        let (a, b) = pairs[i];
        for op1 in ["remove", "replace", "override"] {
            for op2 in ["replace", "default", "override", "remove", "add"] {
                let filters = vec![
                    F { action: op1.to_string(), header: known[a].to_lowercase(), value: "n1".to_string(), hash: false },
                    F { action: op2.to_string(), header: known[b].to_string(), value: "n2".to_string(), hash: false },
                ];
                // the second name is present in the list (every name is) - and absent in a second list
                let without: Vec<H> = known_headers.iter().filter(|(n, _)| *n != known[b]).cloned().collect();
                for headers in [&known_headers, &without] {
                    ctx.eval(1);
                    for (sig, what) in crate::common::run_case(|| json!({"headers": headers, "filters": filters, "universe": "known"}), || check_case(headers, &filters)) {
                        ctx.report(Violation { signature: format!("{sig}:many-known-names"), what: what.chars().take(600).collect(), case: json!({"headers": headers, "filters": filters, "universe": "known"}), weight: 500 });
                    }
                }
            }
        }
    });
    // third universe: names of equal length that differ in one non-letter byte by bit 5 ('^' 0x5E / '~' 0x7E): a case-insensitive
    // comparison folds letters only
    let twin_headers: Vec<Vec<H>> = {
        let names = ["X~Y", "X^Y"];
        let mut v: Vec<Vec<H>> = vec![vec![]];
        for a in names {
            v.push(vec![(a.to_string(), "a".to_string())]);
            for b in names {
                v.push(vec![(a.to_string(), "a".to_string()), (b.to_string(), "b".to_string())]);
            }
        }
        v
    };
    let twin_seqs: Vec<Vec<F>> = {
        let mut singles = Vec::new();
        // ... and operation names that are NOT one of the five: other letter case, trailing blank, empty (unknown = ignored)
        let ops: Vec<&str> = ACTIONS.iter().copied().chain(["Add", "REMOVE", "Override", "default ", "", "Replace"]).collect();
        for a in ops {
            for n in ["X^Y", "x~y"] {
                singles.push(F { action: a.to_string(), header: n.to_string(), value: format!("t{}", a.len()), hash: false });
            }
        }
        let mut out: Vec<Vec<F>> = vec![vec![]];
        let mut layer: Vec<Vec<F>> = vec![vec![]];
        for _ in 0..3 {
            let mut next = Vec::new();
            for l in &layer {
                for s in &singles {
                    let mut n = l.clone();
                    n.push(s.clone());
                    next.push(n);
                }
            }
            out.extend(next.iter().cloned());
            layer = next;
        }
        out
    };
    par_range(ctx.threads, twin_seqs.len(), |i| {
        let filters = &twin_seqs[i];
        for headers in &twin_headers {
            ctx.eval(1);
            for (sig, what) in crate::common::run_case(|| json!({"headers": headers, "filters": filters, "universe": "twins"}), || check_case(headers, filters)) {
                ctx.report(Violation { signature: format!("{sig}:names-differing-by-one-non-letter-bit"), what, case: json!({"headers": headers, "filters": filters, "universe": "twins"}), weight: (headers.len() + filters.len() * 4) as u64 });
            }
        }
    });
    // count thresholds: long header lists (70 / 130 / 300 entries, the looked-at names repeated at several positions) and long
    // filter sequences (70 / 130 filters cycling through the operations)
    let long_cases: Vec<(Vec<H>, Vec<F>)> = {
        let mut v = Vec::new();
        for n in [70usize, 130, 300] {
            let mut headers: Vec<H> = (0..n).map(|i| (format!("H{i}"), format!("v{i}"))).collect();
            for pos in [0, n / 2, n - 1, 64.min(n - 1), 100.min(n - 1)] {
                headers[pos] = (if pos % 2 == 0 { "X".to_string() } else { "x".to_string() }, format!("x{pos}"));
            }
            for fl in all_filter_sequences(1) {
                v.push((headers.clone(), fl));
            }
            let cyc: Vec<F> = (0..n).map(|i| F { action: ACTIONS[i % 5].to_string(), header: ["X", "Y", "H3", "Z"][i % 4].to_string(), value: format!("w{i}"), hash: i % 3 == 0 }).collect();
            v.push((headers.clone(), cyc.clone()));
            v.push((vec![("X".to_string(), "a".to_string())], cyc));
        }
        v
    };
    par_range(ctx.threads, long_cases.len(), |i| {
        let (headers, filters) = &long_cases[i];
        ctx.eval(1);
        for (sig, what) in crate::common::run_case(|| json!({"headers": headers, "filters": filters, "universe": "long"}), || check_case(headers, filters)) {
            ctx.report(Violation { signature: format!("{sig}:long-lists"), what: what.chars().take(1500).collect(), case: json!({"headers": headers, "filters": filters, "universe": "long"}), weight: (headers.len() + filters.len() * 4) as u64 });
        }
    });
    let mut cov = Coverage::new();
    cov.set("long_lists", json!({"cases": long_cases.len(), "header_list_lengths": [70, 130, 300], "filter_sequence_lengths": [1, 70, 130, 300]}));
    cov.set("bit5_twin_universe", json!({"header_lists": twin_headers.len(), "filter_sequences": twin_seqs.len(), "names": ["X~Y", "X^Y", "x~y"]}));
    cov.set("prefix_universe", json!({"header_lists": plists.len(), "filter_sequences": pseqs.len(), "header_names": PREFIX_HEADER_NAMES, "filter_names": PREFIX_FILTER_NAMES}));
    cov.set("distinct_nontrivial", json!(changed.len()))
        .set("rule", json!("full product header lists (<=3 over 3 names x 2 values) x filter sequences; distinct_nontrivial = distinct (list, sequence) pairs whose expected output differs from the input list"))
        .set("header_lists", json!(lists.len()))
        .set("filter_sequences", json!(seqs.len()))
        .set("distinct_expected_outputs", json!(outcomes.len()))
        .set("samples", json!(samples.take()))
        .set("exhaustive", json!(true));
    cov.assume("names/values outside the alphabet and sequences longer than the bound are not covered");
    finish(&ctx, cov, &replay)
}
