//! C10 — markers capture the matching text and are substituted into targets and filters.
//!
//! Engine E4: templates (markers in path, host, header, all three; names that are prefixes of one
//! another) x typed marker expressions x accepted / rejected instantiations x transformer chains x
//! variable kinds. Oracle: match <=> all values accepted; Location / header / body filter values /
//! Action::get_target == template with references replaced (longest name first) by T(value).

use crate::common::{finish, par_range, Coverage, Ctx, DistinctSet, Samples, Tier, Violation};
use heck::{ToKebabCase, ToLowerCamelCase, ToSnakeCase};
use redirectionio::action::Action;
use redirectionio::api::Rule;
use redirectionio::http::{Header, Request};
use redirectionio::router::Router;
use redirectionio::RouterConfig;
use regex::Regex;
use serde::{Deserialize, Serialize};
use serde_json::{json, Value};

#[derive(Clone, Debug, Serialize, Deserialize)]
pub struct MType {
    pub name: String,
    pub expr: String,
    pub accepted: Vec<String>,
    pub rejected: Vec<String>,
}

pub fn types() -> Vec<MType> {
    let t = |name: &str, expr: &str, acc: &[&str], rej: &[&str]| MType {
        name: name.into(),
        expr: expr.into(),
        accepted: acc.iter().map(|s| s.to_string()).collect(),
        rejected: rej.iter().map(|s| s.to_string()).collect(),
    };
    vec![
        t("integer", "[0-9]+", &["7", "2024"], &["x7", ""]),
        t("lowercase", r"([\p{Ll}]|\-)+?", &["abc", "a-b"], &["ABC", "a1"]),
        t("enum", "(cat|dog|fish)", &["cat", "fish"], &["cow", "cats"]),
        t(
            "uuid",
            "[0-9a-f]{8}-[0-9a-f]{4}-[0-9a-f]{4}-[0-9a-f]{4}-[0-9a-f]{12}",
            &["01234567-89ab-cdef-0123-456789abcdef", "ffffffff-ffff-ffff-ffff-ffffffffffff"],
            &["0123", "01234567-89ab-cdef-0123-456789abcdeg"],
        ),
        t("date", "[0-9]{4}-[0-9]{2}-[0-9]{2}", &["2024-03-05", "1999-12-31"], &["2024-3-5", "20240305"]),
        t("anything", ".+?", &["a.b", "X~y"], &[""]),
        t("percent", r"([\p{Ll}0-9]|%[0-9A-Z]{2})+?", &["caf%C3%A9", "a%20b"], &["A", "a%2"]),
        // expressions containing characters that mean something in a URL (quote, angle brackets of a named group)
        t("not-quote", r#"[^"/.]+"#, &["v2", "abc"], &[""]),
        t("named-group", r"(?P<yr>[0-9]{4})-[0-9]{2}", &["2024-05", "1999-12"], &["24-05", "2024-5"]),
        // counted repetition, an expression that accepts the empty string (used with a sibling rule diverging inside them)
        t("four-digits", "[0-9]{4}", &["2024", "0007"], &["24", "20245"]),
        t("digits-star", "[0-9]*", &["", "42"], &["x"]),
        // accepted values that READ like a reference to another marker of the templates (`@a`, `@x`): a captured string is
        // data, it is substituted and never read again as a template (not used for host markers: `@` ends the user-info part)
        t("at-sign", "[a-z@]+", &["@a", "@x"], &["", "1"]),
    ]
}

#[derive(Clone, Debug, Serialize, Deserialize, PartialEq, Eq)]
pub enum Tr {
    Lowercase,
    Uppercase,
    Camelize,
    Dasherize,
    Underscorize,
    Slice13,
    ReplaceAB,
    /// transformers that cannot be built (unknown type, missing options): skipped, the rest of the chain applies
    Unknown,
    ReplaceNoOptions,
    SliceNoTo,
    /// option values that are not numbers: an unreadable `from` is the start of the string, an unreadable `to` its end
    SliceBlankTo3,
    Slice1ToBlank,
    SliceMinus1To2,
}

pub const TRS: [Tr; 13] = [
    Tr::Lowercase,
    Tr::Uppercase,
    Tr::Camelize,
    Tr::Dasherize,
    Tr::Underscorize,
    Tr::Slice13,
    Tr::ReplaceAB,
    Tr::Unknown,
    Tr::ReplaceNoOptions,
    Tr::SliceNoTo,
    Tr::SliceBlankTo3,
    Tr::Slice1ToBlank,
    Tr::SliceMinus1To2,
];

impl Tr {
    pub fn json(&self) -> Value {
        match self {
            Tr::Lowercase => json!({"type": "lowercase", "options": null}),
            Tr::Uppercase => json!({"type": "uppercase", "options": null}),
            Tr::Camelize => json!({"type": "camelize", "options": null}),
            Tr::Dasherize => json!({"type": "dasherize", "options": null}),
            Tr::Underscorize => json!({"type": "underscorize", "options": null}),
            Tr::Slice13 => json!({"type": "slice", "options": {"from": "1", "to": "3"}}),
            Tr::ReplaceAB => json!({"type": "replace", "options": {"something": "a", "with": "b"}}),
            Tr::Unknown => json!({"type": "reverse", "options": null}),
            Tr::ReplaceNoOptions => json!({"type": "replace", "options": null}),
            Tr::SliceNoTo => json!({"type": "slice", "options": {"from": "1"}}),
            Tr::SliceBlankTo3 => json!({"type": "slice", "options": {"from": "", "to": "3"}}),
            Tr::Slice1ToBlank => json!({"type": "slice", "options": {"from": "1", "to": ""}}),
            Tr::SliceMinus1To2 => json!({"type": "slice", "options": {"from": "-1", "to": "2"}}),
        }
    }
    /// reference semantics (the three case conversions trust `heck`)
    pub fn apply(&self, v: &str) -> String {
        match self {
            Tr::Lowercase => v.to_lowercase(),
            Tr::Uppercase => v.to_uppercase(),
            Tr::Camelize => v.to_lower_camel_case(),
            Tr::Dasherize => v.to_kebab_case(),
            Tr::Underscorize => v.to_snake_case(),
            Tr::Slice13 => ref_slice(v, 1, Some(3)),
            Tr::ReplaceAB => v.replace('a', "b"),
            Tr::SliceBlankTo3 => ref_slice(v, 0, Some(3)),
            Tr::Slice1ToBlank => ref_slice(v, 1, None),
            Tr::SliceMinus1To2 => ref_slice(v, 0, Some(2)),
            Tr::Unknown | Tr::ReplaceNoOptions | Tr::SliceNoTo => v.to_string(),
        }
    }
}

/// byte offsets [from, to) clamped to the length; an offset inside a multi-byte character moves back to its first byte
fn ref_slice(v: &str, from: usize, to: Option<usize>) -> String {
    let mut to = to.unwrap_or(v.len()).min(v.len());
    let mut from = from;
    if from > v.len() || from >= to {
        return String::new();
    }
    while !v.is_char_boundary(from) {
        from -= 1;
    }
    while !v.is_char_boundary(to) {
        to -= 1;
    }
    v[from..to].to_string()
}

#[derive(Clone, Debug, Serialize, Deserialize)]
pub struct Slot {
    pub name: String,
    pub mtype: usize,
    /// index into accepted (0,1) or 2+index into rejected
    pub value: usize,
    pub transformers: Vec<Tr>,
}

#[derive(Clone, Debug, Serialize, Deserialize)]
pub struct Case {
    pub template: usize,
    pub slots: Vec<Slot>,
    pub header_name_lower: bool,
    pub ignore_case: bool,
    pub with_variables: bool,
    /// the redirect target references no marker (filter values still do)
    #[serde(default)]
    pub static_target: bool,
    /// a second line of the same header, rejected by the pattern, follows the accepted one
    #[serde(default)]
    pub extra_header_line: bool,
    /// Router::cache(None) is called before matching
    #[serde(default)]
    pub cached: bool,
    /// a second rule lives in the same trees: same template, but every marker expression replaced by a SIBLING expression that
    /// starts alike and diverges inside (a counted repetition, a quantifier); inserted before (1) or after (2) the rule under test
    #[serde(default)]
    pub sibling: u8,
}

/// an expression that shares its beginning with `expr` and diverges inside it
pub fn sibling_expr(expr: &str) -> String {
    match expr {
        "[0-9]+" => "[0-9]*x".to_string(),
        "[0-9]{4}" => "[0-9]{2}".to_string(),
        "[0-9]*" => "[0-9]+".to_string(),
        "(cat|dog|fish)" => "(cat|dogs)".to_string(),
        ".+?" => ".*?q".to_string(),
        e if e.starts_with("[0-9]{4}-") => "[0-9]{2}-[0-9]{2}-[0-9]{4}".to_string(),
        e => format!("{e}?zz"),
    }
}

pub struct Template {
    pub name: &'static str,
    pub path: &'static str,
    pub host: Option<&'static str>,
    pub header: Option<(&'static str, &'static str)>,
    /// static query of the rule source, written (and requested) in an order that is not the canonical one
    pub query: Option<&'static str>,
    /// marker names in the order of `slots`; location: 'p' path, 'h' host, 'x' header
    pub markers: &'static [(&'static str, char)],
}

pub fn templates() -> Vec<Template> {
    vec![
        Template { name: "path-one", path: "/p/@a", host: None, header: None, query: None, markers: &[("a", 'p')] },
        Template { name: "path-two-segments-prefix-names", path: "/p/@a/q/@ab", host: None, header: None, query: None, markers: &[("a", 'p'), ("ab", 'p')] },
        Template { name: "path-two-in-one-segment", path: "/p/@ab_@a", host: None, header: None, query: None, markers: &[("ab", 'p'), ("a", 'p')] },
        Template { name: "host+path", path: "/p/@y", host: Some("@x.example.org"), header: None, query: None, markers: &[("x", 'h'), ("y", 'p')] },
        // a marker name with upper-case letters (names are case-sensitive whatever the case mode of the router)
        Template { name: "path-camel-case-name", path: "/p/@pId/q/@a", host: None, header: None, query: None, markers: &[("pId", 'p'), ("a", 'p')] },
        Template { name: "header+path", path: "/p/@y", host: None, header: Some(("X-Foo", "v-@x")), query: None, markers: &[("x", 'x'), ("y", 'p')] },
        Template {
            name: "host+path+header-prefix-chain",
            path: "/p/@ab/r/@a",
            host: Some("@abc.example.org"),
            header: Some(("X-Foo", "v-@x")),
            query: None,
            markers: &[("abc", 'h'), ("ab", 'p'), ("a", 'p'), ("x", 'x')],
        },
        // two constraints on ONE header name (spelled in another case), the pattern with the marker is the second one
        Template { name: "header-two-constraints+path", path: "/p/@y", host: None, header: Some(("X-Foo", "v-@x")), query: None, markers: &[("x", 'x'), ("y", 'p')] },
        // the request spells its query in the rule's own written order, which is not the sorted one, and ends with '&'
        Template { name: "path-one+unsorted-static-query", path: "/p/@a", host: None, header: None, query: Some("q=1&lang=en&"), markers: &[("a", 'p')] },
    ]
}

fn value_of(types: &[MType], s: &Slot) -> (String, bool) {
    let t = &types[s.mtype];
    if s.value < t.accepted.len() {
        (t.accepted[s.value].clone(), true)
    } else {
        (t.rejected[(s.value - t.accepted.len()) % t.rejected.len()].clone(), false)
    }
}

// references followed by a separator, by the end of the string, and directly by a name character (`@a_s`, `@y9`,
// `@xs`): substitution is textual, whatever follows the reference
const TARGET: &str = "/t/@abc|@ab|@a|@x|@y|@zz/end?k=@a&m=@a_s&n=@y9@xs&c=@pId";
const HEADER_VALUE: &str = "pre-@ab-@a-post@a_1";
const TEXT_VALUE: &str = "[@a@ab]";
const HTML_VALUE: &str = "<i>@a</i>";

fn substitute(template: &str, vars: &[(String, String)]) -> String {
    // ONE pass over the template: a reference is an occurrence of `@name` in the template itself (longest name first);
    // text brought in by a substituted value is never read again, whatever it looks like (`@a` captured for `ab`)
    let mut v: Vec<&(String, String)> = vars.iter().collect();
    v.sort_by(|a, b| b.0.len().cmp(&a.0.len()));
    let mut out = String::new();
    let mut rest = template;
    while let Some(pos) = rest.find('@') {
        out.push_str(&rest[..pos]);
        let after = &rest[pos + 1..];
        match v.iter().find(|(n, _)| after.starts_with(n.as_str())) {
            Some((n, val)) => {
                out.push_str(val);
                rest = &after[n.len()..];
            }
            None => {
                out.push('@');
                rest = after;
            }
        }
    }
    out.push_str(rest);
    out
}

pub fn build(case: &Case) -> (Rule, Request, RouterConfig, bool, Vec<(String, String)>) {
    let types = types();
    let tpls = templates();
    let t = &tpls[case.template];
    let mut rc = RouterConfig::default();
    rc.ignore_path_and_query_case = case.ignore_case;
    let mut markers = Vec::new();
    let mut all_accepted = true;
    let mut path = t.path.to_string();
    let mut host = t.host.map(|h| h.to_string());
    let mut header_val = t.header.map(|(_, v)| v.to_string());
    let mut vars: Vec<(String, String)> = Vec::new();
    // raw values per location; the path / host / header value are instantiated in ONE pass below (longest name first, a value is
    // never read again: `ab` := "@a" stays "@a")
    let mut raw: Vec<(char, String, String)> = Vec::new();
    let mut order: Vec<usize> = (0..case.slots.len()).collect();
    order.sort_by(|a, b| case.slots[*b].name.len().cmp(&case.slots[*a].name.len()));
    for i in order {
        let s = &case.slots[i];
        let (val, listed_ok) = value_of(&types, s);
        // acceptance is decided by the regex crate on the anchored expression; path markers are
        // case-insensitive when ignore_path_and_query_case is configured
        let ci = case.ignore_case && t.markers[i].1 == 'p';
        let ok = regex::RegexBuilder::new(&format!("^(?:{})$", types[s.mtype].expr)).case_insensitive(ci).build().map(|re| re.is_match(&val)).unwrap_or(listed_ok);
        // header patterns are unanchored by design: only "accepted" is asserted there, rejected values are not used
        all_accepted &= ok;
        markers.push(json!({"name": s.name, "regex": types[s.mtype].expr, "transformers": s.transformers.iter().map(|t| t.json()).collect::<Vec<_>>()}));
        raw.push((t.markers[i].1, s.name.clone(), val.clone()));
        let mut tv = val.clone();
        for tr in &s.transformers {
            tv = tr.apply(&tv);
        }
        vars.push((s.name.clone(), tv));
    }
    let at = |loc: char| -> Vec<(String, String)> { raw.iter().filter(|(l, _, _)| (*l == loc) || (loc == 'x' && *l != 'p' && *l != 'h')).map(|(_, n, v)| (n.clone(), v.clone())).collect() };
    path = substitute(&path, &at('p'));
    host = host.map(|h| substitute(&h, &at('h')));
    header_val = header_val.map(|h| substitute(&h, &at('x')));
    let headers_src: Value = match t.header {
        None => Value::Null,
        Some((n, v)) if t.name == "header-two-constraints+path" => json!([{"type": "is_not_equal_to", "name": n.to_lowercase(), "value": "never"}, {"type": "match_regex", "name": n, "value": v}]),
        Some((n, v)) => json!([{"type": "match_regex", "name": n, "value": v}]),
    };
    let mut rule = json!({
        "id": "m", "source": {"scheme": null, "host": t.host, "ips": null, "path": t.path, "query": t.query, "headers": headers_src, "methods": null,
            "exclude_methods": null, "response_status_codes": null, "exclude_response_status_codes": null, "sampling": null},
        "target": if case.static_target { "/static-target" } else { TARGET }, "status_code": 302, "rank": 1, "markers": markers,
        "body_filters": [
            {"action": "append_text", "content": TEXT_VALUE, "id": null, "target_hash": null},
            {"action": "append_child", "value": HTML_VALUE, "inner_value": null, "element_tree": ["html", "body"], "css_selector": null, "id": null, "target_hash": null}
        ],
        "header_filters": [{"action": "add", "header": "X-Out", "value": HEADER_VALUE, "id": null, "target_hash": null}],
        "log_override": null, "reset": null, "stop": null, "examples": null, "redirect_unit_id": null, "configuration_log_unit_id": null,
        "configuration_reset_unit_id": null, "target_hash": null
    });
    let req_host = host.clone().unwrap_or_else(|| "www.example.org".to_string());
    if let Some(q) = t.query {
        path = format!("{path}?{q}");
    }
    let mut req = Request::from_config(&rc, path.clone(), Some(req_host.clone()), Some("https".into()), Some("POST".into()), Some("10.2.3.4".parse().unwrap()), None);
    req.created_at = Some("2024-03-05T10:00:00Z".parse().unwrap());
    // an unrelated header comes first: the header a pattern looks at is not the first line of the request
    req.add_header("Accept".to_string(), "*/*".to_string(), rc.ignore_header_case);
    if let (Some((n, _)), Some(v)) = (t.header, &header_val) {
        let name = if case.header_name_lower { n.to_lowercase() } else { n.to_string() };
        req.add_header(name.clone(), v.clone(), rc.ignore_header_case);
        if case.extra_header_line {
            req.add_header(name, "zz-no-match".to_string(), rc.ignore_header_case);
        }
    }
    if case.with_variables {
        // explicit variables of every kind; raw marker references are then not substituted (only variables are)
        let first = &case.slots[0];
        rule["variables"] = json!([
            {"name": "v1", "type": {"marker": first.name}, "transformers": [{"type": "reverse", "options": null}, {"type": "uppercase", "options": null}]},
            {"name": "vhost", "type": "request_host", "transformers": []},
            {"name": "vmeth", "type": "request_method", "transformers": [{"type": "lowercase", "options": null}]},
            {"name": "vpath", "type": "request_path", "transformers": []},
            {"name": "vsch", "type": "request_scheme", "transformers": []},
            {"name": "vip", "type": "request_remote_address", "transformers": []},
            {"name": "vhd", "type": {"request_header": {"name": "X-Absent", "default": "dflt"}}, "transformers": []},
            {"name": "vtime", "type": "request_time", "transformers": []},
            {"name": "vnone", "type": {"marker": "nosuch"}, "transformers": []}
        ]);
        rule["target"] = json!("/t/@v1|@vhost|@vmeth|@vsch|@vip|@vhd|@vnone|@vtime|@vpath");
        let first_val = vars.iter().find(|(n, _)| *n == first.name).map(|(_, v)| v.clone()).unwrap_or_default();
        vars = vec![
            ("v1".into(), first_val.to_uppercase()),
            ("vhost".into(), req_host),
            ("vmeth".into(), "post".into()),
            ("vpath".into(), path.clone()),
            ("vsch".into(), "https".into()),
            ("vip".into(), "10.2.3.4".into()),
            ("vhd".into(), "dflt".into()),
            ("vtime".into(), "Tue, 5 Mar 2024 10:00:00 +0000".into()),
            ("vnone".into(), "".into()),
        ];
    }
    let rule: Rule = serde_json::from_value(rule).expect("marker rule");
    (rule, req, rc, all_accepted, vars)
}

pub fn check_case(case: &Case) -> Vec<(String, String)> {
    let tpls = templates();
    let t = &tpls[case.template];
    let (rule, req, rc, all_accepted, vars) = build(case);
    let target_template = rule.target.clone().unwrap_or_default();
    let mut router = Router::<Rule>::from_config(rc.clone());
    let sibling_rule: Option<Rule> = if case.sibling > 0 {
        let mut v = serde_json::to_value(&rule).unwrap();
        v["id"] = json!("sib");
        v["rank"] = json!(0);
        if let Some(ms) = v["markers"].as_array_mut() {
            for m in ms {
                let e = m["regex"].as_str().unwrap_or("").to_string();
                m["regex"] = json!(sibling_expr(&e));
            }
        }
        serde_json::from_value(v).ok()
    } else {
        None
    };
    if case.sibling == 1 {
        if let Some(s) = &sibling_rule {
            router.insert(s.clone());
        }
    }
    router.insert(rule);
    if case.sibling == 2 {
        if let Some(s) = &sibling_rule {
            router.insert(s.clone());
        }
    }
    if case.cached {
        router.cache(None);
    }
    // (the sibling may match too: the rule under test is "m")
    let matched: Vec<_> = router.match_request(&req).into_iter().filter(|r| r.id() == "m").collect();
    let mut out = Vec::new();
    let types = types();
    let desc = format!(
        "template {} slots {:?} request path {:?} host {:?} headers {:?}",
        t.name,
        case.slots.iter().map(|s| (s.name.clone(), types[s.mtype].name.clone(), value_of(&types, s).0, s.transformers.clone())).collect::<Vec<_>>(),
        req.path_and_query_skipped.original,
        req.host,
        req.headers
    );
    let kind_of = |s: &Slot| types[s.mtype].name.clone();
    if all_accepted && matched.is_empty() {
        let k: Vec<String> = case.slots.iter().map(kind_of).collect();
        out.push((format!("accepted-instantiation-does-not-match:{}:{}", t.name, k.join("+")), desc.clone()));
        return out;
    }
    if !all_accepted {
        if !matched.is_empty() {
            let bad: Vec<String> = case.slots.iter().filter(|s| !value_of(&types, s).1).map(kind_of).collect();
            out.push((format!("rejected-instantiation-matches:{}:{}", t.name, bad.join("+")), desc));
        }
        return out;
    }
    let route = matched[0].clone();
    let mut action = Action::from_routes_rule(matched, &req, None);
    let headers = action.filter_headers(vec![], 0, false, None);
    let get = |n: &str| headers.iter().find(|h| h.name == n).map(|h| h.value.clone()).unwrap_or_default();
    let trs: Vec<String> = case.slots.iter().flat_map(|s| s.transformers.iter().map(|t| format!("{t:?}"))).collect();
    let feature = format!(
        "{}{}{}{}",
        t.name,
        if case.header_name_lower { ":header-name-lowercase" } else { "" },
        if case.with_variables { ":variables" } else if case.static_target { ":static-target" } else if case.extra_header_line { ":second-header-line" } else if case.cached { ":cached" } else if case.sibling > 0 { ":sibling-rule" } else { "" },
        if trs.is_empty() { String::new() } else { format!(":tr={}", trs.join(">")) }
    );
    let want_location = substitute(&target_template, &vars);
    if get("Location") != want_location {
        out.push((format!("location:{feature}"), format!("Location {:?}, expected {:?}; {desc}", get("Location"), want_location)));
    }
    let gt = Action::get_target(&route, &req).unwrap_or_default();
    if gt != want_location {
        out.push((format!("get-target:{feature}"), format!("Action::get_target {:?}, expected {:?}; {desc}", gt, want_location)));
    }
    if !case.with_variables {
        let want_header = substitute(HEADER_VALUE, &vars);
        if get("X-Out") != want_header {
            out.push((format!("header-filter-value:{feature}"), format!("X-Out {:?}, expected {:?}; {desc}", get("X-Out"), want_header)));
        }
        let body = b"<html><body>B</body></html>".to_vec();
        let resp = vec![Header { name: "Content-Type".into(), value: "text/html".into() }];
        let got_body = match action.create_filter_body(0, &resp) {
            None => body.clone(),
            Some(mut f) => {
                let mut o = f.filter(body.clone(), None);
                o.extend(f.end(None));
                o
            }
        };
        let want_body = format!("<html><body>B{}</body></html>{}", substitute(HTML_VALUE, &vars), substitute(TEXT_VALUE, &vars));
        if String::from_utf8_lossy(&got_body) != want_body {
            out.push((
                format!("body-filter-value:{feature}"),
                format!("body {:?}, expected {:?}; {desc}", String::from_utf8_lossy(&got_body), want_body),
            ));
        }
    }
    // the same router (its routes are shared by every clone of it) serves another request first: same path and host, the header
    // marker instantiated with the slot's OTHER accepted value; the request under test must get the same answer afterwards
    if t.header.is_some() && !case.with_variables {
        if let Some(hs) = case.slots.iter().position(|s| t.markers.iter().any(|(n, l)| *n == s.name && *l == 'x')) {
            let mut other = case.clone();
            other.slots[hs].value = 1 - case.slots[hs].value.min(1);
            let (_, req2, _, ok2, _) = build(&other);
            if ok2 {
                // a FRESH router (new route objects): the other request is the first one its routes ever see
                let (rule_b, _, _, _, _) = build(case);
                let mut router_b = Router::<Rule>::from_config(rc.clone());
                router_b.insert(rule_b);
                let m2: Vec<_> = router_b.match_request(&req2).into_iter().filter(|r| r.id() == "m").collect();
                let _ = Action::from_routes_rule(m2, &req2, None);
                let again: Vec<_> = router_b.clone().match_request(&req).into_iter().filter(|r| r.id() == "m").collect();
                let mut a2 = Action::from_routes_rule(again, &req, None);
                let h2 = a2.filter_headers(vec![], 0, false, None);
                let loc2 = h2.iter().find(|h| h.name == "Location").map(|h| h.value.clone()).unwrap_or_default();
                if loc2 != want_location {
                    out.push((format!("after-another-request:location:{feature}"), format!("after the router served the same URL with another header value: Location {:?}, expected {:?}; {desc}", loc2, want_location)));
                }
            }
        }
    }
    out
}

pub fn replay(case: &Value) -> Vec<String> {
    match serde_json::from_value::<Case>(case.clone()) {
        Ok(c) => check_case(&c).into_iter().map(|(s, _)| s).collect(),
        Err(_) => vec![],
    }
}

fn chains(max: usize) -> Vec<Vec<Tr>> {
    let mut out: Vec<Vec<Tr>> = vec![vec![]];
    let mut layer: Vec<Vec<Tr>> = vec![vec![]];
    for _ in 0..max {
        let mut next = Vec::new();
        for l in &layer {
            for t in TRS {
                let mut n = l.clone();
                n.push(t);
                next.push(n);
            }
        }
        out.extend(next.iter().cloned());
        layer = next;
    }
    out
}

pub fn cases(tier: Tier) -> Vec<Case> {
    let types = types();
    let tpls = templates();
    let mut out = Vec::new();
    for (ti, t) in tpls.iter().enumerate() {
        let n = t.markers.len();
        // type assignment: full product for <=2 markers, a diagonal family for more
        let mut assignments: Vec<Vec<usize>> = Vec::new();
        if n <= 2 {
            let mut cur = vec![vec![]];
            for _ in 0..n {
                let mut next = Vec::new();
                for a in &cur {
                    for k in 0..types.len() {
                        let mut b: Vec<usize> = a.clone();
                        b.push(k);
                        next.push(b);
                    }
                }
                cur = next;
            }
            assignments = cur;
        } else {
            for k in 0..types.len() {
                for step in 1..tier.pick(4, types.len()) {
                    assignments.push((0..n).map(|i| (k + i * step) % types.len()).collect());
                }
            }
        }
        let named = types.iter().position(|t| t.name == "named-group").unwrap_or(usize::MAX);
        for assign in assignments {
            // two markers whose expressions define the SAME named group give one pattern with a duplicate group name, which is
            // not a regex: outside the domain (the statement speaks of expressions that accept strings)
            if assign.iter().filter(|k| **k == named).count() > 1 {
                continue;
            }
            if (0..n).any(|i| (t.markers[i].1 == 'h' && types[assign[i]].name == "at-sign") || (t.markers[i].1 != 'p' && types[assign[i]].name == "accented")) {
                continue;
            }
            // values: all accepted combinations; rejected one slot at a time (only in anchored positions)
            let mut value_sets: Vec<Vec<usize>> = Vec::new();
            let mut cur = vec![vec![]];
            for _ in 0..n {
                let mut next = Vec::new();
                for a in &cur {
                    for v in 0..2 {
                        let mut b: Vec<usize> = a.clone();
                        b.push(v);
                        next.push(b);
                    }
                }
                cur = next;
            }
            value_sets.extend(cur);
            for i in 0..n {
                if t.markers[i].1 == 'x' {
                    continue;
                }
                for r in 0..types[assign[i]].rejected.len() {
                    let mut v = vec![0; n];
                    v[i] = 2 + r;
                    value_sets.push(v);
                }
            }
            for values in value_sets {
                let all_ok = values.iter().all(|v| *v < 2);
                let chain_sets: Vec<Vec<Tr>> = if all_ok && values.iter().all(|v| *v == 0) { chains(2) } else { vec![vec![]] };
                for chain in chain_sets {
                    for header_name_lower in [false, true] {
                        if header_name_lower && t.header.is_none() {
                            continue;
                        }
                        for ignore_case in [false, true] {
                            for (with_variables, static_target) in [(false, false), (true, false), (false, true)] {
                                if (ignore_case || with_variables || static_target) && !chain.is_empty() {
                                    continue;
                                }
                                let slots: Vec<Slot> = (0..n)
                                    .map(|i| Slot {
                                        name: t.markers[i].0.to_string(),
                                        mtype: assign[i],
                                        value: values[i],
                                        // the chain goes on the LAST slot listed (so that it is not always the longest name)
                                        transformers: if i == n - 1 { chain.clone() } else { vec![] },
                                    })
                                    .collect();
                                out.push(Case { template: ti, slots: slots.clone(), header_name_lower, ignore_case, with_variables, static_target, extra_header_line: false, cached: false, sibling: 0 });
                                if chain.is_empty() && !with_variables && !static_target {
                                    for sibling in [1u8, 2] {
                                        out.push(Case { template: ti, slots: slots.clone(), header_name_lower, ignore_case, with_variables, static_target, extra_header_line: false, cached: sibling == 2 && !ignore_case, sibling });
                                    }
                                }
                                if chain.is_empty() && !ignore_case {
                                    out.push(Case { template: ti, slots: slots.clone(), header_name_lower, ignore_case, with_variables, static_target, extra_header_line: false, cached: true, sibling: 0 });
                                    if t.header.is_some() {
                                        out.push(Case { template: ti, slots, header_name_lower, ignore_case, with_variables, static_target, extra_header_line: true, cached: false, sibling: 0 });
                                    }
                                }
                            }
                        }
                    }
                }
            }
        }
    }
    out
}

pub fn run(tier: Tier) -> i32 {
    let ctx = Ctx::new("C10", tier, "exploration");
    // self-check of the value alphabets against the regex crate
    for t in types() {
        let re = Regex::new(&format!("^(?:{})$", t.expr)).unwrap();
        for a in &t.accepted {
            assert!(re.is_match(a), "alphabet error: {a:?} should be accepted by {}", t.expr);
        }
        for r in &t.rejected {
            assert!(!re.is_match(r), "alphabet error: {r:?} should be rejected by {}", t.expr);
        }
    }
    let cases = cases(tier);
    let distinct = DistinctSet::new();
    let matched = std::sync::atomic::AtomicU64::new(0);
    let samples = Samples::new(6);
    par_range(ctx.threads, cases.len(), |i| {
        let c = &cases[i];
        ctx.eval(1);
        for (sig, what) in crate::common::run_case(|| serde_json::to_value(c).unwrap(), || check_case(c)) {
            ctx.report(Violation { signature: sig, what, case: serde_json::to_value(c).unwrap(), weight: (c.slots.len() * 10 + c.slots.iter().map(|s| s.transformers.len()).sum::<usize>()) as u64 });
        }
        let (rule, req, _, ok, vars) = build(c);
        if ok {
            matched.fetch_add(1, std::sync::atomic::Ordering::Relaxed);
            let loc = substitute(&rule.target.clone().unwrap_or_default(), &vars);
            if distinct.insert_str(&loc) && i % 13 == 0 {
                samples.offer(|| json!({"template": templates()[c.template].name, "request": req.path_and_query_skipped.original, "host": req.host, "expected_location": loc}));
            }
        }
    });
    let mut cov = Coverage::new();
    cov.set("distinct_nontrivial", json!(distinct.len()))
        .set("rule", json!("evaluations = (template, marker types, instantiation, transformer chain, header-name case, path-case flag, variables on/off) cases; distinct_nontrivial = distinct expected Location values among the accepted instantiations"))
        .set("accepted_instantiations", json!(matched.load(std::sync::atomic::Ordering::Relaxed)))
        .set("templates", json!(templates().iter().map(|t| t.name).collect::<Vec<_>>()))
        .set("marker_types", json!(types().iter().map(|t| t.name.clone()).collect::<Vec<_>>()))
        .set("samples", json!(samples.take()))
        .set("exhaustive", json!(true));
    cov.assume("values are ASCII and never contain '@'; header patterns are unanchored by design so only accepted values are asserted there")
        .assume("camelize / dasherize / underscorize reference = the heck crate; with explicit variables only variable references are asserted");
    finish(&ctx, cov, &replay)
}
