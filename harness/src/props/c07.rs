//! C07 — no input makes the library panic.
//!
//! Engine E5: deviation-bounded fault exploration. A baseline bundle (config, rule with every optional
//! block, partner rule, request, response head and body, example, analysis parameters) drives the whole
//! public pipeline in proxy order; a deviation replaces one field by one value of that field's hostile
//! alphabet. All bundles with 0 and 1 deviations (quick) / 2 deviations (thorough) are executed, plus
//! every null / valid pointer pattern of every extern "C" entry point. Cases run in worker
//! subprocesses on a 2 MiB-stack thread; oracle: no unwind, no abort / signal, no timeout.

use crate::common::{finish, panic_message, Coverage, Ctx, Tier, Violation};
use crate::ffi::*;
use redirectionio::action::{Action, TraceAction};
use redirectionio::api::{
    Example, ExplainRequestInput, ExplainRequestOutput, ExplainRequestProjectInput, ImpactInput, ImpactOutput, ImpactProjectInput, Log, Rule, TestExamplesInput,
    TestExamplesOutput, TestExamplesProjectInput, UnitIdsInput, UnitIdsOutput, UnitIdsProjectInput,
};
use redirectionio::filter::Buffer;
use redirectionio::http::{Header, Request};
use redirectionio::router::Router;
use redirectionio::RouterConfig;
use serde_json::{json, Value};
use std::cell::RefCell;
use std::io::{BufRead, BufReader, Write};
use std::panic::{catch_unwind, AssertUnwindSafe};
use std::process::{Command, Stdio};
use std::sync::atomic::{AtomicU64, AtomicUsize, Ordering};
use std::sync::{Arc, Mutex};
use std::time::{Duration, Instant};

// ------------------------------------------------------------------------------------------------
// baseline bundle

pub fn baseline() -> Value {
    json!({
        "config": {"ignore_host_case": false, "ignore_header_case": false, "ignore_path_and_query_case": false, "ignore_marketing_query_params": true,
                   "marketing_query_params": ["utm_source", "utm_medium"], "pass_marketing_query_params_to_target": true, "always_match_any_host": true},
        "rule": {
            "id": "base", "rank": 10,
            "source": {"scheme": "https", "host": "@h.example.org",
                "ips": [{"in_range": "10.0.0.0/8"}, {"not_in_range": "192.168.0.0/16"}],
                "datetime": [["2024-01-01T00:00:00Z", "2030-01-01T00:00:00Z"]], "time": [["00:00:00", "23:59:59"]],
                "weekdays": ["Mon", "Tue", "Wed", "Thu", "Fri", "Sat", "Sun"],
                "path": "/p/@m/x", "query": "a=1&b=@n",
                "headers": [{"type": "match_regex", "name": "X-Foo", "value": "v-@x"}, {"type": "is_defined", "name": "User-Agent", "value": null}],
                "methods": ["GET", "POST"], "exclude_methods": null, "response_status_codes": [200, 404], "exclude_response_status_codes": null, "sampling": 100},
            "target": "/t/@v1/@v2?k=@v4", "status_code": 302,
            "markers": [
                {"name": "m", "regex": "[a-zé]+", "transformers": [{"type": "slice", "options": {"from": "0", "to": "3"}}, {"type": "replace", "options": {"something": "a", "with": "b"}}, {"type": "camelize", "options": null}]},
                {"name": "n", "regex": "[0-9]+", "transformers": []},
                {"name": "x", "regex": "[0-9a-f]+", "transformers": [{"type": "uppercase", "options": null}]},
                {"name": "h", "regex": "(www|api)", "transformers": []}
            ],
            "variables": [
                {"name": "v1", "type": {"marker": "m"}, "transformers": [{"type": "slice", "options": {"from": "1", "to": "2"}}]},
                {"name": "v2", "type": {"request_header": {"name": "X-Foo", "default": null}}, "transformers": [{"type": "dasherize", "options": null}]},
                {"name": "v3", "type": "request_time", "transformers": []},
                {"name": "v4", "type": "request_host", "transformers": [{"type": "underscorize", "options": null}]}
            ],
            "body_filters": [
                {"action": "append_child", "value": "<i>@v1</i>", "inner_value": null, "element_tree": ["html", "body"], "css_selector": "i.k", "id": "u1", "target_hash": "t1"},
                {"action": "prepend_text", "content": "@v3", "id": "u3", "target_hash": null}
            ],
            "header_filters": [{"action": "add", "header": "X-Out", "value": "@v1", "id": "u2", "target_hash": "t2"}],
            "log_override": true, "reset": false, "stop": false,
            "examples": [{"url": "https://www.example.org/p/abc/x?a=1&b=2", "method": "GET", "headers": [{"name": "X-Foo", "value": "v-1f"}, {"name": "User-Agent", "value": "ua"}],
                          "datetime": "2024-06-01T10:00:00Z", "ip_address": "10.0.0.1", "response_status_code": 200, "must_match": true, "unit_ids_applied": ["u1"]}],
            "redirect_unit_id": "ru", "configuration_log_unit_id": "lu", "configuration_reset_unit_id": "cu", "target_hash": "th"
        },
        "rule2": {
            "id": "partner", "rank": 5,
            "source": {"scheme": null, "host": null, "ips": null, "path": "/t/b/v-1f", "query": null, "headers": null, "methods": null, "exclude_methods": null,
                       "response_status_codes": null, "exclude_response_status_codes": null, "sampling": null},
            "target": "https://www.example.org/p/abc/x?a=1&b=2", "status_code": 301, "markers": [],
            // no date / time trigger on this rule: whatever the instant of the request, its request_time variable is computed
            "variables": [{"name": "t2", "type": "request_time", "transformers": []}],
            "body_filters": null, "header_filters": [{"action": "add", "header": "X-T", "value": "@t2", "id": null, "target_hash": null}], "log_override": null, "reset": null, "stop": null,
            "examples": [{"url": "/t/b/v-1f", "method": null, "headers": null, "ip_address": null, "datetime": "2024-06-01T10:00:00Z", "response_status_code": null, "must_match": true, "unit_ids_applied": []}],
            "redirect_unit_id": null, "configuration_log_unit_id": null, "configuration_reset_unit_id": null, "target_hash": null
        },
        "rule3": {
            "id": "third", "rank": 1,
            "source": {"scheme": "https", "host": "xé2@g.example.org", "ips": null, "path": "/never/@k", "query": null, "headers": null, "methods": null, "exclude_methods": null,
                       "response_status_codes": null, "exclude_response_status_codes": null, "sampling": null},
            "target": "/t/@k", "status_code": 302, "markers": [{"name": "g", "regex": "(www|api)", "transformers": []}, {"name": "k", "regex": "[a-z]+", "transformers": []}], "variables": [],
            "body_filters": null, "header_filters": null, "log_override": null, "reset": null, "stop": null, "examples": null,
            "redirect_unit_id": null, "configuration_log_unit_id": null, "configuration_reset_unit_id": null, "target_hash": null
        },
        "request": {"path": "/p/abc/x?b=2&a=1&utm_source=s", "host": "www.example.org", "scheme": "https", "method": "GET",
                    "headers": [["X-Foo", "v-1f"], ["User-Agent", "ua"], ["X-Forwarded-For", "10.0.0.9, 10.0.0.8"], ["Forwarded", "for=\"10.0.0.7\";proto=https"], ["Referer", "r"]],
                    "ip": "10.0.0.1", "time": "2024-06-01T10:00:00Z", "sampling_override": null},
        "response": {"code": 200, "headers": [["Content-Type", "text/html; charset=utf-8"], ["Location", "/old"]], "body": "small-html"},
        "example": {"url": "https://www.example.org/p/abc/x?a=1&b=2", "method": "GET", "headers": [{"name": "X-Foo", "value": "v-1f"}, {"name": "User-Agent", "value": "ua"}],
                    "datetime": "2024-06-01T10:00:00Z", "ip_address": "10.0.0.1", "response_status_code": 200, "must_match": true, "unit_ids_applied": ["u1"]},
        "analysis": {"max_hops": 5, "project_domains": ["www.example.org"], "impact_action": "update", "cache_limit": null}
    })
}

fn big(n: usize, c: char) -> String {
    std::iter::repeat(c).take(n).collect()
}

fn strings() -> Vec<Value> {
    vec![
        json!(""),
        json!("a"),
        json!("𝄞"),
        json!(big(65536, 'a')),
        json!("a\u{0}b"),
        json!("@m@n@x@"),
        json!(".*+?()[]{}|\\^$"),
        json!("(("),
        json!("[a"),
        json!("(?P<x>a)"),
        json!(" "),
        json!("%zz%"),
        json!("é/É"),
        // long runs of 3-, 4- and 2-byte characters behind 0..3 ASCII bytes: whatever byte offset a limit sits at (every power of
        // two up to 64 KiB, any other), for one of the prefixes it falls INSIDE a character
        json!(format!("{}", "€".repeat(22000))),
        json!(format!("a{}", "€".repeat(22000))),
        json!(format!("ab{}", "€".repeat(22000))),
        json!(format!("a{}", "𝄞".repeat(17000))),
        json!(format!("ab{}", "𝄞".repeat(17000))),
        json!(format!("abc{}", "𝄞".repeat(17000))),
        json!(format!("a{}", "é".repeat(33000))),
    ]
}

/// (JSON pointer into the bundle, hostile values)
pub fn deviations() -> Vec<(String, Vec<Value>)> {
    let mut d: Vec<(String, Vec<Value>)> = Vec::new();
    let mut add = |p: &str, v: Vec<Value>| d.push((p.to_string(), v));
    let regexes = vec![
        json!("("),
        json!(""),
        json!(".*"),
        json!("((a)|(b))+"),
        json!("[^)]+"),
        json!("(a{1000}){1000}"),
        json!("(?P<m>[a-z]+)"),
        json!("(?P<n>[a-z]+)"),
        // named / unnamed groups of the expression's own (names that are no declared marker), accepting the baseline values
        json!("(?P<inner>[0-9a-zé]+)"),
        json!("(?P<year>[0-9a-zé]+?)(?P<rest>[0-9a-zé]*)"),
        json!("([0-9a-zé])([0-9a-zé]*)"),
        json!("\\p{Greek}+|[a-zé]+"),
        json!(".+?"),
        json!("[a-z]+)"),
        json!("\\"),
    ];
    for i in 0..4 {
        add(&format!("/rule/markers/{i}/regex"), regexes.clone());
        add(&format!("/rule/markers/{i}/name"), vec![json!(""), json!("mm"), json!("h"), json!("é"), json!("a b"), json!("(")]);
    }
    let idx = ["0", "3", "1", "-1", "x", "18446744073709551616", "2", ""];
    let mut slice_opts = Vec::new();
    for f in idx {
        for t in idx {
            slice_opts.push(json!({"from": f, "to": t}));
        }
    }
    slice_opts.push(json!({"from": "1"}));
    slice_opts.push(json!({"to": "1"}));
    slice_opts.push(json!({}));
    slice_opts.push(Value::Null);
    add("/rule/markers/0/transformers/0/options", slice_opts.clone());
    add("/rule/variables/0/transformers/0/options", slice_opts);
    add(
        "/rule/markers/0/transformers/1/options",
        vec![json!({"something": "", "with": "x"}), json!({"something": "a"}), json!({"with": "a"}), Value::Null, json!({"something": "é", "with": "𝄞"}), json!({"something": "b", "with": big(100000, 'z')})],
    );
    add("/rule/markers/0/transformers/0/type", vec![json!("bogus"), Value::Null, json!(""), json!("uppercase"), json!("camelize"), json!("dasherize"), json!("underscorize"), json!("lowercase"), json!("replace")]);
    add("/rule/markers/0/transformers", vec![json!([]), json!([{"type": "slice", "options": {"from": "2", "to": "1"}}]), json!([{"type": "uppercase", "options": null}, {"type": "slice", "options": {"from": "1", "to": "2"}}])]);
    let cidrs = vec![json!(""), json!("garbage"), json!("10.0.0.0/33"), json!("::/0"), json!("10.0.0.1"), json!("300.1.1.1/8"), json!("0.0.0.0/0"), json!("2001:db8::/129")];
    add("/rule/source/ips/0/in_range", cidrs.clone());
    add("/rule/source/ips/1/not_in_range", cidrs);
    add("/rule/source/ips", vec![json!([]), Value::Null]);
    let dts = vec![Value::Null, json!(""), json!("garbage"), json!("2024-13-45T99:99:99Z"), json!("2024-01-01"), json!("+262143-12-31T23:59:59Z"), json!("-262144-01-01T00:00:00Z"), json!("2024-06-01T10:00:00+25:00")];
    add("/rule/source/datetime/0/0", dts.clone());
    add("/rule/source/datetime/0/1", dts.clone());
    add("/rule/source/datetime", vec![json!([]), Value::Null, json!([[null, null]])]);
    let times = vec![Value::Null, json!(""), json!("25:00:00"), json!("9"), json!("23:59:60"), json!("garbage")];
    add("/rule/source/time/0/0", times.clone());
    add("/rule/source/time/0/1", times);
    add("/rule/source/weekdays", vec![json!([]), json!(["Blursday"]), json!([""]), Value::Null, json!(["monday", "MON", "Mon"])]);
    add("/rule/source/scheme", vec![Value::Null, json!(""), json!("ftp"), json!("HTTPS")]);
    let mut hosts = strings();
    hosts.extend([json!("@h"), json!("@h.@h.example.org"), json!("www.example.org"), Value::Null, json!("xé1@h.example.org"), json!("éé@h.example.org"), json!("xé2@h.example.org")]);
    add("/rule/source/host", hosts);
    add("/rule3/source/host", vec![Value::Null, json!("www.example.org"), json!("@g.example.org"), json!("éé1@g.example.org"), json!("@h.example.org.evil")]);
    add("/rule3/source/path", vec![json!("/p/@k/x"), json!("/p/@k"), json!("/é/@k"), json!("/p/@k/x/y")]);
    let mut paths = strings();
    paths.extend([json!("/p/@m/@m/x"), json!("@m"), json!("/p/@m@n/x"), json!("/p/@mm/x"), json!("/p/é/@m/x"), json!("p"), json!("/p/@m/x#frag"), json!("/p/@m/x?in=path")]);
    add("/rule/source/path", paths);
    let mut queries = strings();
    queries.extend([Value::Null, json!("a=1&a=2&b=@n"), json!("&&&===&"), json!("b=@n&a=1&utm_source=x"), json!("a=%zz&b=@n"), json!(format!("b=@n&{}", "k=v&".repeat(2000)))]);
    add("/rule/source/query", queries);
    add("/rule/source/methods", vec![json!([]), Value::Null, json!([""]), json!(["get"]), json!(["GET", "GET"])]);
    add("/rule/source/exclude_methods", vec![json!(true), json!(false)]);
    for i in 0..2 {
        add(
            &format!("/rule/source/headers/{i}/type"),
            vec![
                json!("bogus"),
                json!(""),
                json!("is_equals"),
                json!("is_not_equal_to"),
                json!("contains"),
                json!("does_not_contain"),
                json!("starts_with"),
                json!("ends_with"),
                json!("is_not_defined"),
                json!("match_regex"),
            ],
        );
        let mut vals = strings();
        vals.push(Value::Null);
        vals.push(json!("v-@x@x"));
        vals.push(json!("(v-@x"));
        add(&format!("/rule/source/headers/{i}/value"), vals);
        add(&format!("/rule/source/headers/{i}/name"), vec![json!(""), json!("x-foo"), json!("é"), json!(big(70000, 'h')), json!("a b:c")]);
    }
    add("/rule/source/response_status_codes", vec![json!([]), Value::Null, json!([0]), json!([65535, 0, 200])]);
    add("/rule/source/exclude_response_status_codes", vec![json!(true), json!(false)]);
    add("/rule/source/sampling", vec![Value::Null, json!(0), json!(50), json!(4294967295u64)]);
    let mut targets = strings();
    targets.extend([
        Value::Null,
        json!("mailto:a@b"),
        json!("//evil.example/p"),
        json!("/t?x=1#f"),
        json!("http://[::1"),
        json!("/t/@v1@v1@v1@m"),
        json!("javascript:alert(1)"),
        json!("https://other.example.net/x"),
        json!("https://www.example.org/p/abc/x?a=1&b=2"),
        json!("/p/abc/x?a=1&b=2"),
        json!("data:text/html,x"),
        json!("https://www.example.org:99999/"),
        json!(format!("/t/{}", big(9000, 'q'))),
    ]);
    add("/rule/target", targets.clone());
    add("/rule2/target", targets);
    add("/rule/status_code", vec![Value::Null, json!(0), json!(99), json!(65535), json!(301), json!(200), json!(404)]);
    add("/rule2/status_code", vec![json!(0), json!(302), json!(307), json!(308), json!(65535)]);
    add("/rule/rank", vec![json!(0), json!(65535), json!(5)]);
    add("/rule/reset", vec![json!(true), Value::Null]);
    add("/rule/stop", vec![json!(true), Value::Null]);
    add("/rule/log_override", vec![json!(false), Value::Null]);
    add("/rule/id", vec![json!(""), json!("partner"), json!("é;,"), json!(big(70000, 'i'))]);
    add("/rule/variables", vec![json!([]), json!([{"name": "", "type": "request_path", "transformers": []}]),
        json!([{"name": "v1", "type": {"marker": "nosuch"}, "transformers": []}, {"name": "v1", "type": "request_method", "transformers": []}]),
        json!([{"name": "v2", "type": {"request_header": {"name": "", "default": "d"}}, "transformers": []}, {"name": "v5", "type": "request_remote_address", "transformers": []}, {"name": "v6", "type": "request_scheme", "transformers": []}])]);
    add("/rule/body_filters/0/action", vec![json!("prepend_child"), json!("replace"), json!("bogus"), json!("")]);
    let mut sels = strings();
    sels.extend([Value::Null, json!("*"), json!(":not("), json!("a,b,,"), json!(big(10000, 's')), json!("i.k > b ~ c + d[e=\"f\"]:nth-child(2n+1)"), json!("body")]);
    add("/rule/body_filters/0/css_selector", sels);
    add("/rule/body_filters/0/element_tree", vec![json!([]), json!([""]), json!(["html"]), json!(["HTML", "BODY"]), json!((0..1000).map(|_| "div").collect::<Vec<_>>()), json!(["html", "body", "div"]), json!(["script"]), json!(["html", "head", "meta"])]);
    let mut vals = strings();
    vals.extend([json!("<div><div>"), json!("</body></html><html><body>"), json!("<script>"), json!("<!--"), json!(big(100000, 'v'))]);
    add("/rule/body_filters/0/value", vals.clone());
    add("/rule/body_filters/1/content", vals);
    add("/rule/body_filters/1/action", vec![json!("append_text"), json!("replace_text")]);
    add("/rule/body_filters", vec![Value::Null, json!([])]);
    add("/rule/header_filters/0/action", vec![json!("remove"), json!("replace"), json!("override"), json!("default"), json!("bogus"), json!("")]);
    add("/rule/header_filters/0/header", vec![json!(""), json!("X Y"), json!("é"), json!("Location"), json!("content-type"), json!(big(70000, 'h'))]);
    add("/rule/header_filters/0/value", strings());
    add("/rule/examples", vec![Value::Null, json!([])]);
    // examples / explain input
    let urls = vec![
        json!("/p/abc/x?a=1&b=2"),
        json!("mailto:a@b"),
        json!("//host/p"),
        json!("http://[::1]/p"),
        json!("http://exa mple.org/ p"),
        json!("#frag"),
        json!("/p/é"),
        json!(format!("/p/abc/x?{}", "k=v&".repeat(2048))),
        json!("/%zz"),
        json!("?"),
        json!(""),
        json!("http://"),
        json!("https://www.example.org:99999/"),
        json!("/t/b/v-1f"),
        json!("https://www.example.org/t/b/v-1f"),
        json!("a\u{0}b"),
        json!("https://WWW.EXAMPLE.ORG/p/abc/x?b=2&a=1"),
    ];
    for base in ["/example", "/rule/examples/0"] {
        add(&format!("{base}/url"), urls.clone());
        add(&format!("{base}/ip_address"), vec![Value::Null, json!("garbage"), json!(""), json!("::1"), json!("10.0.0.1:80"), json!("999.1.1.1"), json!(" 10.0.0.1")]);
        add(&format!("{base}/datetime"), vec![Value::Null, json!("garbage"), json!(""), json!("2024-06-01"), json!("2024-06-01T10:00:00"),
            // instants at the edges of what the date type can represent / what a textual format can print
            json!("+10000-01-01T00:00:00Z"), json!("9999-12-31T23:59:59Z"), json!("0000-01-01T00:00:00Z"), json!("-0001-12-31T00:00:00Z"), json!("+262142-12-31T23:59:59Z"), json!("1970-01-01T00:00:00+14:00")]);
        add(&format!("{base}/method"), vec![Value::Null, json!(""), json!("get"), json!("G E T"), json!("𝄞"), json!("POST")]);
        add(&format!("{base}/response_status_code"), vec![Value::Null, json!(0), json!(404), json!(65535), json!(301)]);
        add(&format!("{base}/must_match"), vec![json!(false)]);
        add(&format!("{base}/unit_ids_applied"), vec![Value::Null, json!([]), json!(["nosuch", "u1", "u1"])]);
        add(&format!("{base}/headers"), vec![Value::Null, json!([]), json!([{"name": "", "value": ""}]), json!([{"name": "X-Foo", "value": "v-zz"}, {"name": "x-foo", "value": "v-1"}])]);
    }
    add("/rule2/examples/0/datetime", vec![Value::Null, json!("garbage"), json!("+10000-01-01T00:00:00Z"), json!("9999-12-31T23:59:59Z"), json!("0000-01-01T00:00:00Z"), json!("-0001-12-31T00:00:00Z"), json!("+262142-12-31T23:59:59Z")]);
    add("/analysis/max_hops", vec![json!(0), json!(1), json!(2), json!(255)]);
    add("/analysis/project_domains", vec![json!([]), json!(["example.org"]), json!(["", "www.example.org"]), json!(["other.example.net"])]);
    add("/analysis/impact_action", vec![json!("add"), json!("delete"), json!("bogus"), json!("")]);
    add("/analysis/cache_limit", vec![json!(0), json!(1), json!(3), json!(1000000)]);
    // request
    let mut rp = strings();
    rp.extend([json!("no-slash"), json!("/p/%zz/x?a=1&b=2"), json!("/p/éa/x?a=1&b=2"), json!(format!("/p/abc/x?b=2&{}", "a=1&".repeat(2000))), json!("/p/abc/x?a=1&b=2#f"), json!("/p/abc/x?b=2&a=1&a=1"), json!("/p/ABC/x?a=1&b=2"), json!("/p/abc/x?a=1&b=%32"), json!("/p/a\"<b>/x?a=1&b=2"), json!("/t/b/v-1f"), json!("//p//abc"), json!("/p/abc/x?utm_source=&utm_medium=%zz&a=1&b=2")]);
    add("/request/path", rp);
    add("/request/host", vec![Value::Null, json!(""), json!("WWW.EXAMPLE.ORG"), json!("[::1]:80"), json!(big(70000, 'h')), json!("api.example.org"), json!("é.example.org"), json!("www.example.org:443")]);
    add("/request/scheme", vec![Value::Null, json!(""), json!("ftp"), json!("HTTPS"), json!("http")]);
    add("/request/method", vec![Value::Null, json!(""), json!("get"), json!("𝄞"), json!("POST"), json!("PUT")]);
    add("/request/headers", vec![json!([]), json!([["", ""]]), json!([["X-Foo", "v-1f"], ["x-foo", "v-zz"], ["X-FOO", ""]]), json!([["X-Foo", big(70000, 'f')], ["User-Agent", "ua"]]),
        json!([["x-foo", "v-1f"], ["user-agent", "ua"], ["X-Forwarded-For", ",,,garbage, ::1,10.0.0.300"], ["Forwarded", "for=;;=;for=\"[::1]:80\",for"], ["Host", "evil"]]),
        json!([["X-Foo", "v-é"], ["User-Agent", "𝄞"]]),
        json!([["X-Foo", "v-1f"], ["User-Agent", "ua"], ["Forwarded", "for=\""], ["forwarded", "by=x, for = \" , for=1.2.3.4"], ["Forwarded", "for=\";proto=https"], ["X-Forwarded-For", "\""]]),
        json!([["X-Foo", "v-1f"], ["User-Agent", "ua"], ["Forwarded", "="], ["Forwarded", "for"], ["Forwarded", "for=\"\""], ["Forwarded", ";;;,,,"], ["X-Forwarded-For", ""]])]);
    add("/request/ip", vec![Value::Null, json!("::1"), json!("192.168.1.1"), json!("10.255.255.255"), json!("::ffff:10.0.0.1")]);
    add("/request/time", vec![Value::Null, json!("1970-01-01T00:00:00Z"), json!("2030-01-01T00:00:00Z"), json!("2029-12-31T23:59:59.999999999Z")]);
    add("/request/sampling_override", vec![json!(true), json!(false)]);
    // response
    add("/response/code", vec![json!(0), json!(99), json!(404), json!(65535), json!(302)]);
    add("/response/headers", vec![
        json!([]),
        json!([["content-type", "TEXT/HTML; charset=x"]]),
        json!([["Content-Type", "application/json"]]),
        json!([["Content-Type", ""]]),
        json!([["Content-Type", "𝄞"], ["", ""]]),
        json!([["Content-Type", "text/html"], ["Content-Encoding", "gzip"]]),
        json!([["Content-Type", "text/html"], ["Content-Encoding", "br"]]),
        json!([["Content-Type", "text/html"], ["Content-Encoding", "deflate"]]),
        json!([["Content-Type", "text/html"], ["Content-Encoding", "zstd"]]),
        json!([["Content-Type", "text/html"], ["content-encoding", "GZIP"], ["Content-Encoding", "br"]]),
        json!([["Location", ""], ["location", "x"], ["LOCATION", big(70000, 'l')]]),
    ]);
    add("/response/body", BODY_IDS.iter().skip(1).map(|b| json!(b)).collect());
    // config
    for flag in ["ignore_host_case", "ignore_header_case", "ignore_path_and_query_case", "ignore_marketing_query_params", "pass_marketing_query_params_to_target", "always_match_any_host"] {
        add(&format!("/config/{flag}"), vec![json!(true), json!(false)]);
    }
    add("/config/marketing_query_params", vec![json!([]), json!(["a"]), json!([""]), json!(["a", "b", "utm_source"])]);
    d
}

pub const BODY_IDS: &[&str] = &[
    "small-html",
    "empty",
    "non-utf8",
    "truncated-markup",
    "text-2mib",
    "script-2mib",
    "comment-open-2mib",
    "deep-nesting",
    "escaped-script-1mib",
    "double-escaped-script-1mib",
    "gzip-of-html",
    "truncated-gzip",
    "brotli-of-html",
    "zlib-of-html",
    "many-attributes",
    "nul-bytes",
    "lt-flood",
    "stray-continuation-bytes",
    "lone-lead-bytes",
];

pub fn body_bytes(id: &str) -> Vec<u8> {
    let html = b"<!DOCTYPE html><html><head><title>t</title></head><body><i class=\"k\">x</i><div>d</div></body></html>".to_vec();
    match id {
        "empty" => vec![],
        "non-utf8" => b"<html><body>\xff\xfe<div>\xc3</div></body></html>".to_vec(),
        "truncated-markup" => b"<html><body><div class=\"a".to_vec(),
        "text-2mib" => {
            let mut v = b"<html><body>".to_vec();
            v.extend(std::iter::repeat(b'a').take(2 * 1024 * 1024));
            v.extend_from_slice(b"</body></html>");
            v
        }
        "script-2mib" => {
            let mut v = b"<html><body><script>".to_vec();
            v.extend(std::iter::repeat(b'a').take(2 * 1024 * 1024));
            v.extend_from_slice(b"</script></body></html>");
            v
        }
        "comment-open-2mib" => {
            let mut v = b"<html><body><!--".to_vec();
            v.extend(std::iter::repeat(b'-').take(2 * 1024 * 1024));
            v
        }
        "deep-nesting" => {
            let mut v = b"<html><body>".to_vec();
            for _ in 0..20000 {
                v.extend_from_slice(b"<div>");
            }
            v
        }
        "escaped-script-1mib" => {
            let mut v = b"<html><body><script><!--".to_vec();
            for _ in 0..100000 {
                v.extend_from_slice(b"a<b - -- ");
            }
            v.extend_from_slice(b"--></script></body></html>");
            v
        }
        "double-escaped-script-1mib" => {
            let mut v = b"<html><body><script><!--<script>".to_vec();
            for _ in 0..100000 {
                v.extend_from_slice(b"x<y- -- </s");
            }
            v.extend_from_slice(b"</script>--></script></body></html>");
            v
        }
        "gzip-of-html" => {
            let mut e = flate2::write::GzEncoder::new(Vec::new(), flate2::Compression::default());
            e.write_all(&html).unwrap();
            e.finish().unwrap()
        }
        "truncated-gzip" => {
            let mut e = flate2::write::GzEncoder::new(Vec::new(), flate2::Compression::default());
            e.write_all(&html).unwrap();
            let v = e.finish().unwrap();
            v[..v.len() / 2].to_vec()
        }
        "zlib-of-html" => {
            let mut e = flate2::write::ZlibEncoder::new(Vec::new(), flate2::Compression::default());
            e.write_all(&html).unwrap();
            e.finish().unwrap()
        }
        "brotli-of-html" => {
            let mut out = Vec::new();
            {
                let mut e = brotli::CompressorWriter::new(&mut out, 4096, 5, 22);
                e.write_all(&html).unwrap();
            }
            out
        }
        "many-attributes" => {
            let mut v = b"<html><body><div".to_vec();
            for i in 0..20000 {
                v.extend_from_slice(format!(" a{i}=\"{i}\"").as_bytes());
            }
            v.extend_from_slice(b">x</div></body></html>");
            v
        }
        "nul-bytes" => b"<html>\0<body\0>\0<div a=\0>\0</div></body></html>".to_vec(),
        "lt-flood" => std::iter::repeat(b'<').take(300000).collect(),
        "stray-continuation-bytes" => b"<html><body><p>ok</p>\xbf<p>x</p>\x80\x80<div>d</div>\xa0\x85\xbf</body></html>".to_vec(),
        "lone-lead-bytes" => b"<html><body><p>ok</p>\xc3<p>x</p>\xe2\x82<div>d</div>\xf0\x9f\x98</body></html>\xf0".to_vec(),
        _ => html,
    }
}

// ------------------------------------------------------------------------------------------------
// cases

#[derive(Clone, Debug, serde::Serialize, serde::Deserialize, PartialEq)]
pub enum Case {
    /// deviations: (index into deviations(), index into its value list)
    Bundle(Vec<(usize, usize)>),
    /// extern "C" entry point index, null mask over its pointer arguments, payload variant
    Ffi(usize, u32, usize),
    /// the same case in a process whose log records go to a C callback (redirectionio_log_init_with_callback): every
    /// error / warning path of the library then builds a C string from its message and hands it to the receiver
    Logged(Box<Case>),
    /// count thresholds: n rules of the SAME rank matched by one request, with ids of the given style, handed to the action
    /// builder in several orders (sorting, merging and tracing code paths change with the number of elements)
    ManyMatched(usize, usize),
}

const ID_STYLES: [&str; 4] = ["numeric and non-numeric ids mixed", "numeric ids", "ids differing in length", "ids with non-ASCII letters and letter case"];

fn many_id(style: usize, i: usize) -> String {
    match style {
        0 => match i % 3 {
            0 => format!("{}", i + 3),
            1 => format!("{}b", i + 3),
            _ => format!("n{i:03}"),
        },
        1 => format!("{}", (i * 7 + 5) % 1000 + i * 1000),
        2 => "x".repeat(i % 9 + 1) + &format!("{i}"),
        _ => format!("{}é{i}", if i % 2 == 0 { "R" } else { "r" }),
    }
}

fn run_many_matched(n: usize, style: usize) -> Vec<PanicInfo> {
    let mut panics = Vec::new();
    let mut g = Guard { panics: &mut panics };
    let mut router = Router::<Rule>::default();
    for i in 0..n {
        let rule = json!({"id": many_id(style, i), "rank": 10, "source": {"path": "/landing"}, "status_code": if i % 5 == 0 { json!(302) } else { Value::Null }, "target": if i % 5 == 0 { json!(format!("/t{i}")) } else { Value::Null },
            "header_filters": [{"action": "add", "header": "X-Campaign", "value": format!("c{i}")}], "log_override": if i % 7 == 0 { json!(true) } else { Value::Null }, "reset": i % 11 == 3, "stop": false});
        if let Ok(rule) = serde_json::from_value::<Rule>(rule) {
            g.run("Router::insert", || router.insert(rule));
        }
    }
    let request = Request::from_config(&router.config, "/landing".to_string(), Some("h.example".to_string()), Some("https".to_string()), Some("GET".to_string()), None, None);
    let matched = g.run("Router::match_request", || router.match_request(&request)).unwrap_or_default();
    let base: Vec<_> = matched.clone();
    // the matcher's own order, the reverse, rotations and an interleaving: what a hash-map iteration order may produce
    let mut orders: Vec<Vec<usize>> = vec![(0..base.len()).collect(), (0..base.len()).rev().collect()];
    for k in [1usize, 7, 13] {
        orders.push((0..base.len()).map(|i| (i + k) % base.len().max(1)).collect());
        orders.push((0..base.len()).map(|i| (i * (2 * k + 1)) % base.len().max(1)).collect());
    }
    for (oi, order) in orders.iter().enumerate() {
        let routes: Vec<_> = order.iter().filter_map(|i| base.get(*i).cloned()).collect();
        let mut action = match g.run(&format!("Action::from_routes_rule[order {oi}]"), || Action::from_routes_rule(routes, &request, None)) {
            Some(a) => a,
            None => continue,
        };
        g.run("Action::get_status_code", || action.get_status_code(0, None));
        g.run("Action::filter_headers", || action.filter_headers(vec![], 200, false, None));
    }
    g.run("Router::trace_request", || {
        let traces = router.trace_request(&request);
        let _ = redirectionio::action::TraceAction::from_trace_rules(&traces, &request);
    });
    g.run("Router::get_route", || router.get_route(&request).map(|r| r.priority()));
    panics
}

pub fn enumerate_cases(tier: Tier) -> Vec<Case> {
    let devs = deviations();
    let mut out = vec![Case::Bundle(vec![])];
    for (i, (_, vals)) in devs.iter().enumerate() {
        for v in 0..vals.len() {
            out.push(Case::Bundle(vec![(i, v)]));
        }
    }
    for (f, nptr) in FFI_FUNCS.iter().enumerate() {
        for mask in 0..(1u32 << nptr.1) {
            for payload in 0..FFI_PAYLOADS {
                out.push(Case::Ffi(f, mask, payload));
            }
        }
    }
    for n in [8usize, 24, 70, 260] {
        for style in 0..ID_STYLES.len() {
            out.push(Case::ManyMatched(n, style));
        }
    }
    // every single deviation and every pointer pattern again with the callback logger installed
    let logged: Vec<Case> = out.iter().filter(|c| !matches!(c, Case::Ffi(f, _, _) if FFI_FUNCS[*f].0.contains("log_init"))).map(|c| Case::Logged(Box::new(c.clone()))).collect();
    out.extend(logged);
    if tier == Tier::Thorough {
        // all pairs of deviations on different fields; the heavy bodies only pair with the first value of other fields
        for i in 0..devs.len() {
            for j in i + 1..devs.len() {
                for a in 0..devs[i].1.len() {
                    for b in 0..devs[j].1.len() {
                        let heavy = |p: &str, v: &Value| p == "/response/body" || v.as_str().map(|s| s.len() > 5000).unwrap_or(false) || v.as_array().map(|x| x.len() > 100).unwrap_or(false);
                        if (heavy(&devs[i].0, &devs[i].1[a]) && b > 0) || (heavy(&devs[j].0, &devs[j].1[b]) && a > 0) {
                            continue;
                        }
                        out.push(Case::Bundle(vec![(i, a), (j, b)]));
                    }
                }
            }
        }
    }
    out
}

pub fn apply(case_devs: &[(usize, usize)]) -> Value {
    let devs = deviations();
    let mut b = baseline();
    for (i, v) in case_devs {
        let (ptr, vals) = &devs[*i];
        set_pointer(&mut b, ptr, vals[*v].clone());
    }
    b
}

fn set_pointer(root: &mut Value, pointer: &str, value: Value) {
    if let Some(slot) = root.pointer_mut(pointer) {
        *slot = value;
        return;
    }
    // the parent exists but the key does not (or the parent was replaced by a deviation): create when possible
    if let Some(pos) = pointer.rfind('/') {
        let (parent, key) = (&pointer[..pos], &pointer[pos + 1..]);
        if let Some(Value::Object(m)) = root.pointer_mut(parent) {
            m.insert(key.to_string(), value);
        }
    }
}

// ------------------------------------------------------------------------------------------------
// the pipeline (proxy order), every entry point under catch_unwind

thread_local! {
    static LAST_PANIC_LOCATION: RefCell<Option<String>> = const { RefCell::new(None) };
    static TRACE: RefCell<bool> = const { RefCell::new(false) };
}

pub fn install_hook() {
    std::panic::set_hook(Box::new(|info| {
        let loc = info.location().map(|l| format!("{}:{}", l.file(), l.line())).unwrap_or_else(|| "?".into());
        LAST_PANIC_LOCATION.with(|l| *l.borrow_mut() = Some(loc));
    }));
}

#[derive(Debug, Clone)]
pub struct PanicInfo {
    pub entry: String,
    pub location: String,
    pub message: String,
}

struct Guard<'a> {
    panics: &'a mut Vec<PanicInfo>,
}

thread_local! {
    /// number of entry points executed for the current case (coverage: how deep the pipeline went)
    static ENTRIES: RefCell<u32> = const { RefCell::new(0) };
}

impl<'a> Guard<'a> {
    fn run<T>(&mut self, entry: &str, f: impl FnOnce() -> T) -> Option<T> {
        if TRACE.with(|t| *t.borrow()) {
            println!("ENTER {entry}");
            let _ = std::io::stdout().flush();
        }
        LAST_PANIC_LOCATION.with(|l| *l.borrow_mut() = None);
        ENTRIES.with(|e| *e.borrow_mut() += 1);
        match catch_unwind(AssertUnwindSafe(f)) {
            Ok(v) => Some(v),
            Err(e) => {
                let location = LAST_PANIC_LOCATION.with(|l| l.borrow().clone()).unwrap_or_else(|| "?".into());
                self.panics.push(PanicInfo { entry: entry.to_string(), location, message: panic_message(&e) });
                None
            }
        }
    }
}

fn headers_of(v: &Value) -> Vec<Header> {
    v.as_array()
        .map(|a| {
            a.iter()
                .filter_map(|p| {
                    let p = p.as_array()?;
                    Some(Header { name: p.first()?.as_str()?.to_string(), value: p.get(1)?.as_str()?.to_string() })
                })
                .collect()
        })
        .unwrap_or_default()
}

pub fn run_bundle(b: &Value) -> Vec<PanicInfo> {
    let mut panics = Vec::new();
    let mut g = Guard { panics: &mut panics };
    // deserialisation (the domain of the property is "everything that deserialises")
    let config: RouterConfig = match g.run("RouterConfig::deserialize", || serde_json::from_value::<RouterConfig>(b["config"].clone())) {
        Some(Ok(c)) => c,
        _ => return panics,
    };
    let rule: Option<Rule> = g.run("Rule::deserialize", || serde_json::from_value::<Rule>(b["rule"].clone()).ok()).flatten();
    let rule2: Option<Rule> = g.run("Rule::deserialize", || serde_json::from_value::<Rule>(b["rule2"].clone()).ok()).flatten();
    g.run("Rule::from_json", || Rule::from_json(&b["rule"].to_string()));
    let rule3: Option<Rule> = g.run("Rule::deserialize", || serde_json::from_value::<Rule>(b["rule3"].clone()).ok()).flatten();
    let rules: Vec<Rule> = rule.iter().chain(rule2.iter()).chain(rule3.iter()).cloned().collect();

    // router
    let router: Option<Router<Rule>> = g.run("Router::insert", || {
        let mut r = Router::<Rule>::from_config(config.clone());
        for rule in &rules {
            r.insert(rule.clone());
        }
        r
    });
    let mut router = match router {
        Some(r) => r,
        None => return panics,
    };
    let cache_limit = b["analysis"]["cache_limit"].as_u64();
    let uncached = router.clone();
    g.run("Router::cache", || router.cache(cache_limit));

    // request
    let rq = &b["request"];
    let request: Option<Request> = g.run("Request::from_config", || {
        let ip = rq["ip"].as_str().and_then(|s| s.parse().ok());
        let mut r = Request::from_config(
            &config,
            rq["path"].as_str().unwrap_or("/").to_string(),
            rq["host"].as_str().map(|s| s.to_string()),
            rq["scheme"].as_str().map(|s| s.to_string()),
            rq["method"].as_str().map(|s| s.to_string()),
            ip,
            rq["sampling_override"].as_bool(),
        );
        for h in headers_of(&rq["headers"]) {
            r.add_header(h.name, h.value, config.ignore_header_case);
        }
        r.created_at = None;
        r.set_created_at(rq["time"].as_str().map(|s| s.to_string()));
        r
    });
    g.run("Request::from_str", || rq["path"].as_str().unwrap_or("/").parse::<Request>().ok());
    let request = match request {
        Some(r) => r,
        None => return panics,
    };
    g.run("Request::rebuild_with_config", || router.rebuild_request(&request));
    g.run("Request::serde", || serde_json::to_string(&request).ok().and_then(|s| serde_json::from_str::<Request>(&s).ok()));

    // matching and tracing
    for (name, r) in [("cached", &router), ("uncached", &uncached)] {
        let routes = g.run(&format!("Router::match_request[{name}]"), || r.match_request(&request));
        g.run(&format!("Router::get_route[{name}]"), || r.get_route(&request));
        let traces = g.run(&format!("Router::trace_request[{name}]"), || r.trace_request(&request));
        g.run(&format!("Router::get_trace+serialize[{name}]"), || serde_json::to_string(&r.get_trace(&request)).ok());
        if let Some(traces) = &traces {
            g.run("TraceAction::from_trace_rules", || serde_json::to_string(&TraceAction::from_trace_rules(traces, &request)).ok());
        }
        if name == "uncached" {
            continue;
        }
        let routes = routes.unwrap_or_default();
        for route in &routes {
            g.run("Route::capture", || route.capture(&request));
            g.run("Action::get_target", || Action::get_target(route, &request));
        }
        // action
        let action = g.run("Action::from_routes_rule", || Action::from_routes_rule(routes.clone(), &request, None));
        let mut action = match action {
            Some(a) => a,
            None => continue,
        };
        let code = b["response"]["code"].as_u64().unwrap_or(200) as u16;
        let resp_headers = headers_of(&b["response"]["headers"]);
        g.run("Action::get_status_code(0)", || action.get_status_code(0, None));
        g.run("Action::get_status_code(code)", || action.get_status_code(code, None));
        let filtered = g.run("Action::filter_headers", || action.filter_headers(resp_headers.clone(), code, true, None)).unwrap_or_default();
        g.run("Header::create_header_map", || Header::create_header_map(filtered.clone()));
        let body = body_bytes(b["response"]["body"].as_str().unwrap_or("small-html"));
        for stride in [usize::MAX, 7, 1] {
            if stride == 1 && body.len() > 4096 {
                continue;
            }
            // (a construct held back across calls is re-tokenised on every call: a 290 KB tag in 7-byte chunks is ~6 GB of
            // tokenising, seconds on a quiet machine and a timeout on a loaded one - big bodies get 4 KiB chunks instead)
            let stride = if stride == 7 && body.len() > 50000 { 4096 } else { stride };
            let filter = g.run("Action::create_filter_body", || action.create_filter_body(code, &resp_headers)).flatten();
            if let Some(mut f) = filter {
                g.run(&format!("FilterBodyAction::filter+end[stride={}]", if stride == usize::MAX { "all".to_string() } else { stride.to_string() }), || {
                    let mut out = Vec::new();
                    if stride == usize::MAX {
                        out.extend(f.filter(body.clone(), None));
                    } else {
                        for chunk in body.chunks(stride) {
                            out.extend(f.filter(chunk.to_vec(), None));
                        }
                    }
                    out.extend(f.end(None));
                    out
                });
            }
        }
        g.run("Action::should_log_request", || action.should_log_request(true, code, None));
        g.run("Log::from_proxy", || serde_json::to_string(&Log::from_proxy(&request, code, &filtered, Some(&action), "proxy", 1717236000000, rq["ip"].as_str().unwrap_or(""))).ok());
        g.run("Action::serde", || serde_json::to_string(&action).ok().and_then(|s| serde_json::from_str::<Action>(&s).ok()));
    }

    // analyses, both entry-point families
    let max_hops = b["analysis"]["max_hops"].as_u64().unwrap_or(5);
    let domains = b["analysis"]["project_domains"].clone();
    let rules_json: Vec<Value> = [&b["rule"], &b["rule2"], &b["rule3"]].iter().filter(|r| serde_json::from_value::<Rule>((**r).clone()).is_ok()).map(|r| (*r).clone()).collect();
    let example_ok = serde_json::from_value::<Example>(b["example"].clone()).is_ok();
    let shared = Arc::new(uncached.clone());
    let empty_cs = json!({"added": [], "updated": [], "deleted": []});
    let update_cs = json!({"added": [], "updated": rules_json.iter().take(1).cloned().collect::<Vec<_>>(), "deleted": ["partner"]});
    g.run("TestExamplesOutput::create_result_without_project", || {
        let input: TestExamplesInput = serde_json::from_value(json!({"router_config": b["config"], "rules": rules_json, "max_hops": max_hops, "project_domains": domains})).ok()?;
        serde_json::to_string(&TestExamplesOutput::create_result_without_project(input)).ok()
    });
    for cs in [&empty_cs, &update_cs] {
        g.run("TestExamplesOutput::from_project", || {
            let input: TestExamplesProjectInput = serde_json::from_value(json!({"change_set": cs, "max_hops": max_hops, "project_domains": domains})).ok()?;
            serde_json::to_string(&TestExamplesOutput::from_project(input, shared.clone())).ok()
        });
        g.run("UnitIdsOutput::create_result_from_project", || {
            let input: UnitIdsProjectInput = serde_json::from_value(json!({"change_set": cs})).ok()?;
            serde_json::to_string(&UnitIdsOutput::create_result_from_project(input, shared.clone())).ok()
        });
        if example_ok {
            g.run("ExplainRequestOutput::create_result_from_project", || {
                let input: ExplainRequestProjectInput = serde_json::from_value(json!({"example": b["example"], "change_set": cs, "max_hops": max_hops, "project_domains": domains})).ok()?;
                ExplainRequestOutput::create_result_from_project(input, shared.clone()).ok().and_then(|o| serde_json::to_string(&o).ok())
            });
        }
        if let Some(r) = rules_json.first() {
            g.run("ImpactOutput::from_impact_project", || {
                let input: ImpactProjectInput = serde_json::from_value(json!({"max_hops": max_hops, "with_redirection_loop": true, "domains": domains, "rule": r, "action": b["analysis"]["impact_action"], "change_set": cs})).ok()?;
                serde_json::to_string(&ImpactOutput::from_impact_project(input, shared.clone())).ok()
            });
        }
    }
    g.run("UnitIdsOutput::create_result_without_project", || {
        let input: UnitIdsInput = serde_json::from_value(json!({"router_config": b["config"], "rules": rules_json})).ok()?;
        serde_json::to_string(&UnitIdsOutput::create_result_without_project(input)).ok()
    });
    if example_ok {
        g.run("ExplainRequestOutput::create_result_without_project", || {
            let input: ExplainRequestInput = serde_json::from_value(json!({"router_config": b["config"], "example": b["example"], "rules": rules_json, "max_hops": max_hops, "project_domains": domains})).ok()?;
            ExplainRequestOutput::create_result_without_project(input).ok().and_then(|o| serde_json::to_string(&o).ok())
        });
        g.run("Request::from_example", || {
            let e: Example = serde_json::from_value(b["example"].clone()).ok()?;
            Request::from_example(&config, &e).ok()
        });
    }
    if let Some(r) = rules_json.first() {
        g.run("ImpactOutput::create_result", || {
            let input: ImpactInput = serde_json::from_value(json!({"router_config": b["config"], "max_hops": max_hops, "with_redirection_loop": true, "domains": domains, "rule": r, "action": b["analysis"]["impact_action"], "rules": rules_json})).ok()?;
            serde_json::to_string(&ImpactOutput::create_result(input)).ok()
        });
    }
    panics
}

// ------------------------------------------------------------------------------------------------
// extern "C": every null / valid pattern of the pointer arguments

/// (name, number of pointer arguments)
pub const FFI_FUNCS: &[(&str, u32)] = &[
    ("redirectionio_action_json_deserialize", 1),
    ("redirectionio_action_json_serialize", 1),
    ("redirectionio_action_drop", 1),
    ("redirectionio_action_get_status_code", 1),
    ("redirectionio_action_header_filter_filter", 2),
    ("redirectionio_action_body_filter_create", 2),
    ("redirectionio_action_body_filter_filter", 2),
    ("redirectionio_action_body_filter_close", 1),
    ("redirectionio_action_body_filter_drop", 1),
    ("redirectionio_action_should_log_request", 1),
    ("redirectionio_api_get_rule_api_version", 0),
    ("redirectionio_api_create_log_in_json", 5),
    ("redirectionio_api_buffer_drop", 1),
    ("redirectionio_request_json_deserialize", 1),
    ("redirectionio_request_json_serialize", 1),
    ("redirectionio_request_create", 5),
    ("redirectionio_trusted_proxies_create", 1),
    ("redirectionio_trusted_proxies_add_proxy", 2),
    ("redirectionio_request_set_remote_addr", 3),
    ("redirectionio_request_from_str", 1),
    ("redirectionio_request_drop", 1),
    ("redirectionio_log_init_stderr", 0),
    ("redirectionio_log_init_with_callback", 0),
];
pub const FFI_PAYLOADS: usize = 3;

extern "C" fn log_cb(_msg: *const std::os::raw::c_char, _data: *const std::os::raw::c_void, _level: std::os::raw::c_short) {}

/// what the proxy modules' receivers do: use the message, then release it
extern "C" fn log_receiver(msg: *const std::os::raw::c_char, _data: *const std::os::raw::c_void, _level: std::os::raw::c_short) {
    if !msg.is_null() {
        let text = unsafe { std::ffi::CString::from_raw(msg as *mut std::os::raw::c_char) };
        std::hint::black_box(text.as_bytes().len());
    }
}

fn install_callback_logger() {
    static DATA: u8 = 0;
    unsafe { redirectionio_log_init_with_callback(log_receiver, &DATA as *const u8 as *const _) };
}

fn action_json() -> String {
    json!({
        "status_code_update": {"status_code": 302, "on_response_status_codes": [], "exclude_response_status_codes": false, "fallback_status_code": 0, "rule_id": "r", "fallback_rule_id": null, "unit_id": null, "target_hash": null},
        "header_filters": [{"filter": {"action": "override", "header": "Location", "value": "/t", "id": null, "target_hash": null}, "on_response_status_codes": [], "exclude_response_status_codes": false, "rule_id": "r"},
                           // a value that has no C representation (NUL inside)
                           {"filter": {"action": "add", "header": "X-Nul", "value": "a\u{0}b", "id": null, "target_hash": null}, "on_response_status_codes": [], "exclude_response_status_codes": false, "rule_id": "r"}],
        "body_filters": [{"filter": {"action": "append_child", "value": "<i>v</i>", "inner_value": null, "element_tree": ["html", "body"], "css_selector": null, "id": null, "target_hash": null}, "on_response_status_codes": [], "exclude_response_status_codes": false, "rule_id": "r"}],
        "rule_ids": ["r"], "rule_traces": [], "rules_applied": [], "log_override": null
    })
    .to_string()
}

/// bit i of mask set = pointer argument i is NULL
pub fn run_ffi(func: usize, mask: u32, payload: usize) -> Vec<PanicInfo> {
    let mut panics = Vec::new();
    let mut g = Guard { panics: &mut panics };
    let name = FFI_FUNCS[func].0;
    let null = |i: u32| mask & (1 << i) != 0;
    // payload variants: 0 = plain, 1 = empty / odd strings, 2 = non-UTF-8 strings, null fields inside header lists
    let s = |plain: &str| -> OwnedC {
        match payload {
            0 => OwnedC::new(plain),
            1 => OwnedC::new(""),
            _ => OwnedC::raw(b"\xff\xfe\xc3("),
        }
    };
    let hdrs = || -> OwnedHeaders {
        match payload {
            0 => OwnedHeaders::new(&[(Some("Content-Type"), Some("text/html")), (Some("X-A"), Some("1"))]),
            1 => OwnedHeaders::new(&[]),
            _ => OwnedHeaders::new(&[(None, Some("v")), (Some("n"), None), (None, None), (Some("Content-Type"), Some("text/html"))]),
        }
    };
    let buf = || -> Buffer {
        match payload {
            0 => Buffer::from_vec(b"<html><body>x</body></html>".to_vec()),
            1 => Buffer::from_vec(Vec::new()),
            _ => {
                let mut v = Vec::with_capacity(64);
                v.extend_from_slice(b"<html><body>\xff</bo");
                Buffer::from_vec(v)
            }
        }
    };
    g.run(name, || unsafe {
        let aj = OwnedC::new(&action_json());
        let action = redirectionio_action_json_deserialize(aj.mut_ptr()) as *mut Action;
        let uri = OwnedC::new("/p?a=1");
        let host = OwnedC::new("h.example");
        let h0 = OwnedHeaders::new(&[(Some("X-Forwarded-For"), Some("10.0.0.1"))]);
        let request = redirectionio_request_create(uri.ptr(), host.ptr(), std::ptr::null(), std::ptr::null(), h0.ptr()) as *mut Request;
        let a = |i: u32| if null(i) { std::ptr::null_mut() } else { action };
        let r = |i: u32| if null(i) { std::ptr::null_mut() } else { request };
        match name {
            "redirectionio_action_json_deserialize" => {
                let v = match payload {
                    0 => OwnedC::new(&action_json()),
                    1 => OwnedC::new("{"),
                    _ => OwnedC::raw(b"\xff{}"),
                };
                let p = redirectionio_action_json_deserialize(if null(0) { std::ptr::null_mut() } else { v.mut_ptr() });
                redirectionio_action_drop(p as *mut Action);
            }
            "redirectionio_action_json_serialize" => {
                take_string(redirectionio_action_json_serialize(a(0)));
            }
            "redirectionio_action_drop" => {
                redirectionio_action_drop(if null(0) { std::ptr::null_mut() } else { redirectionio_action_json_deserialize(aj.mut_ptr()) as *mut Action });
            }
            "redirectionio_action_get_status_code" => {
                redirectionio_action_get_status_code(a(0), [0u16, 200, 65535][payload]);
            }
            "redirectionio_action_header_filter_filter" => {
                let h = hdrs();
                let hp = if null(1) { std::ptr::null() } else { h.ptr() };
                let out = redirectionio_action_header_filter_filter(a(0), hp, 200, payload == 0);
                if out != hp {
                    take_header_list(out);
                }
            }
            "redirectionio_action_body_filter_create" => {
                let h = hdrs();
                let f = redirectionio_action_body_filter_create(a(0), 200, if null(1) { std::ptr::null() } else { h.ptr() });
                redirectionio_action_body_filter_drop(f as *mut _);
            }
            "redirectionio_action_body_filter_filter" => {
                let f = redirectionio_action_body_filter_create(action, 200, std::ptr::null()) as *mut redirectionio::filter::FilterBodyAction;
                let b = if null(1) { Buffer::default() } else { buf() };
                let out = redirectionio_action_body_filter_filter(if null(0) { std::ptr::null_mut() } else { f }, b);
                redirectionio_api_buffer_drop(out);
                redirectionio_api_buffer_drop(redirectionio_action_body_filter_close(f));
            }
            "redirectionio_action_body_filter_close" => {
                let f = redirectionio_action_body_filter_create(action, 200, std::ptr::null()) as *mut redirectionio::filter::FilterBodyAction;
                if payload == 0 && !f.is_null() {
                    redirectionio_api_buffer_drop(redirectionio_action_body_filter_filter(f, buf()));
                }
                redirectionio_api_buffer_drop(redirectionio_action_body_filter_close(if null(0) { std::ptr::null_mut() } else { f }));
            }
            "redirectionio_action_body_filter_drop" => {
                let f = redirectionio_action_body_filter_create(action, 200, std::ptr::null()) as *mut redirectionio::filter::FilterBodyAction;
                redirectionio_action_body_filter_drop(if null(0) { std::ptr::null_mut() } else { f });
            }
            "redirectionio_action_should_log_request" => {
                redirectionio_action_should_log_request(a(0), payload == 0, 200);
            }
            "redirectionio_api_get_rule_api_version" => {
                take_string(redirectionio_api_get_rule_api_version());
            }
            "redirectionio_api_create_log_in_json" => {
                let h = hdrs();
                let proxy = s("nginx");
                let ip = s("10.0.0.1");
                take_string(redirectionio_api_create_log_in_json(
                    r(0),
                    200,
                    if null(1) { std::ptr::null() } else { h.ptr() },
                    a(2),
                    if null(3) { std::ptr::null() } else { proxy.ptr() },
                    [0u64, 1717236000000, u64::MAX][payload],
                    if null(4) { std::ptr::null() } else { ip.ptr() },
                ));
            }
            "redirectionio_api_buffer_drop" => {
                redirectionio_api_buffer_drop(if null(0) { Buffer::default() } else { buf() });
            }
            "redirectionio_request_json_deserialize" => {
                let v = match payload {
                    0 => {
                        let p = redirectionio_request_json_serialize(request);
                        OwnedC::new(&take_string(p).unwrap_or_default())
                    }
                    1 => OwnedC::new("[]"),
                    _ => OwnedC::raw(b"\xff"),
                };
                let p = redirectionio_request_json_deserialize(if null(0) { std::ptr::null_mut() } else { v.mut_ptr() });
                redirectionio_request_drop(p as *mut Request);
            }
            "redirectionio_request_json_serialize" => {
                take_string(redirectionio_request_json_serialize(r(0)));
            }
            "redirectionio_request_create" => {
                let (u, h, sc, m) = (s("/p?a=1&utm_source=x"), s("h.example"), s("https"), s("GET"));
                let hl = hdrs();
                let p = redirectionio_request_create(
                    if null(0) { std::ptr::null() } else { u.ptr() },
                    if null(1) { std::ptr::null() } else { h.ptr() },
                    if null(2) { std::ptr::null() } else { sc.ptr() },
                    if null(3) { std::ptr::null() } else { m.ptr() },
                    if null(4) { std::ptr::null() } else { hl.ptr() },
                );
                redirectionio_request_drop(p as *mut Request);
            }
            "redirectionio_trusted_proxies_create" => {
                let v = match payload {
                    0 => OwnedC::new("10.0.0.0/8, 127.0.0.1"),
                    1 => OwnedC::new(",, ,garbage,10.0.0.0/99"),
                    _ => OwnedC::raw(b"\xff,10.0.0.1"),
                };
                redirectionio_trusted_proxies_create(if null(0) { std::ptr::null() } else { v.ptr() });
            }
            "redirectionio_trusted_proxies_add_proxy" => {
                let t = redirectionio_trusted_proxies_create(std::ptr::null()) as *mut CTrustedProxies;
                let v = match payload {
                    0 => OwnedC::new("192.168.0.0/16"),
                    1 => OwnedC::new("garbage"),
                    _ => OwnedC::raw(b"\xff"),
                };
                redirectionio_trusted_proxies_add_proxy(if null(0) { std::ptr::null_mut() } else { t }, if null(1) { std::ptr::null() } else { v.ptr() });
            }
            "redirectionio_request_set_remote_addr" => {
                let cfg = OwnedC::new("10.0.0.0/8");
                let t = redirectionio_trusted_proxies_create(cfg.ptr());
                let v = match payload {
                    0 => OwnedC::new("10.0.0.2:1234"),
                    1 => OwnedC::new("garbage"),
                    _ => OwnedC::raw(b" [::1]:80\n\xff"),
                };
                redirectionio_request_set_remote_addr(r(0), if null(1) { std::ptr::null() } else { v.ptr() }, if null(2) { std::ptr::null() } else { t });
            }
            "redirectionio_request_from_str" => {
                let v = match payload {
                    0 => OwnedC::new("https://h.example/p?a=1"),
                    1 => OwnedC::new("http://exa mple/ p"),
                    _ => OwnedC::raw(b"/\xff"),
                };
                let p = redirectionio_request_from_str(if null(0) { std::ptr::null() } else { v.ptr() });
                redirectionio_request_drop(p as *mut Request);
            }
            "redirectionio_request_drop" => {
                redirectionio_request_drop(if null(0) { std::ptr::null_mut() } else { redirectionio_request_create(uri.ptr(), std::ptr::null(), std::ptr::null(), std::ptr::null(), std::ptr::null()) as *mut Request });
            }
            "redirectionio_log_init_stderr" => {
                // initialising twice (e.g. on configuration reload) must not bring the host down
                if payload > 0 {
                    redirectionio_log_init_stderr();
                    redirectionio_log_init_stderr();
                }
            }
            "redirectionio_log_init_with_callback" => {
                static DATA: u8 = 0;
                // payload 2: the OTHER initialiser ran first (a logger is already installed)
                if payload == 2 {
                    redirectionio_log_init_stderr();
                }
                redirectionio_log_init_with_callback(log_cb, &DATA as *const u8 as *const _);
                if payload == 1 {
                    redirectionio_log_init_with_callback(log_cb, &DATA as *const u8 as *const _);
                }
                // ... and the other way round
                if payload == 0 {
                    redirectionio_log_init_stderr();
                }
            }
            _ => {}
        }
        redirectionio_action_drop(action);
        redirectionio_request_drop(request);
    });
    panics
}

// ------------------------------------------------------------------------------------------------
// worker / driver

pub fn run_case(case: &Case) -> Vec<PanicInfo> {
    match case {
        Case::Bundle(devs) => run_bundle(&apply(devs)),
        Case::Ffi(f, mask, payload) => run_ffi(*f, *mask, *payload),
        Case::Logged(inner) => {
            install_callback_logger();
            run_case(inner)
        }
        Case::ManyMatched(n, style) => run_many_matched(*n, *style),
    }
}

/// worker mode: reads case indices on stdin, prints START / DONE lines
pub fn worker(tier: Tier) -> i32 {
    install_hook();
    if std::env::var("VERIF_C07_TRACE").is_ok() {
        TRACE.with(|t| *t.borrow_mut() = true);
    }
    let cases = enumerate_cases(tier);
    let stdin = std::io::stdin();
    for line in stdin.lock().lines() {
        let line = match line {
            Ok(l) => l,
            Err(_) => break,
        };
        let idx: usize = match line.trim().parse() {
            Ok(i) => i,
            Err(_) => continue,
        };
        if idx >= cases.len() {
            continue;
        }
        println!("START {idx}");
        let _ = std::io::stdout().flush();
        let case = cases[idx].clone();
        let trace = TRACE.with(|t| *t.borrow());
        // a proxy worker thread has a small stack: 2 MiB
        let handle = std::thread::Builder::new().stack_size(2 * 1024 * 1024).spawn(move || {
            install_thread_state(trace);
            ENTRIES.with(|e| *e.borrow_mut() = 0);
            let p = run_case(&case);
            (p, ENTRIES.with(|e| *e.borrow()))
        });
        let (panics, entries) = match handle {
            Ok(h) => h.join().unwrap_or_default(),
            Err(_) => (Vec::new(), 0),
        };
        let enc: Vec<String> = panics.iter().map(|p| format!("{}\u{1}{}\u{1}{}", p.entry, p.location, p.message.replace('\n', " "))).collect();
        println!("DONE {idx} {entries} {}", enc.join("\u{2}"));
        let _ = std::io::stdout().flush();
    }
    0
}

fn install_thread_state(trace: bool) {
    TRACE.with(|t| *t.borrow_mut() = trace);
}

fn describe(case: &Case) -> String {
    match case {
        Case::Bundle(devs) => {
            let d = deviations();
            let parts: Vec<String> = devs
                .iter()
                .map(|(i, v)| {
                    let mut val = d[*i].1[*v].to_string();
                    if val.len() > 80 {
                        val = format!("{}...({} bytes)", &val.chars().take(60).collect::<String>(), val.len());
                    }
                    format!("{} := {}", d[*i].0, val)
                })
                .collect();
            if parts.is_empty() {
                "baseline bundle".to_string()
            } else {
                parts.join(" ; ")
            }
        }
        Case::Ffi(f, mask, payload) => format!("{}(null mask {:#b}, payload variant {})", FFI_FUNCS[*f].0, mask, payload),
        Case::Logged(inner) => format!("with the callback logger installed: {}", describe(inner)),
        Case::ManyMatched(n, style) => format!("{n} rules of one rank matched by one request, {}", ID_STYLES[*style]),
    }
}

fn field_class(case: &Case) -> String {
    match case {
        Case::Bundle(devs) => {
            let d = deviations();
            devs.iter().map(|(i, _)| d[*i].0.clone()).collect::<Vec<_>>().join("+")
        }
        Case::Ffi(f, ..) => FFI_FUNCS[*f].0.to_string(),
        Case::Logged(inner) => format!("callback-logger:{}", field_class(inner)),
        Case::ManyMatched(..) => "many-matched-rules".to_string(),
    }
}

enum Outcome {
    /// panics, number of entry points executed
    Done(Vec<PanicInfo>, u32),
    Died(String),
    Timeout,
}

/// run a list of case indices in one worker process; returns per-index outcomes (stops at the first death)
fn run_batch(tier: Tier, indices: &[usize], trace: bool, timeout: Duration) -> Vec<(usize, Outcome, Option<String>)> {
    let exe = std::env::current_exe().expect("current exe");
    let mut cmd = Command::new(exe);
    cmd.arg("c07-worker").arg(tier.name()).stdin(Stdio::piped()).stdout(Stdio::piped()).stderr(Stdio::null());
    if trace {
        cmd.env("VERIF_C07_TRACE", "1");
    }
    let mut child = cmd.spawn().expect("spawn worker");
    {
        let mut stdin = child.stdin.take().unwrap();
        for i in indices {
            let _ = writeln!(stdin, "{i}");
        }
    }
    let stdout = child.stdout.take().unwrap();
    let (tx, rx) = std::sync::mpsc::channel::<String>();
    std::thread::spawn(move || {
        for line in BufReader::new(stdout).lines().map_while(Result::ok) {
            if tx.send(line).is_err() {
                break;
            }
        }
    });
    let mut results = Vec::new();
    let mut current: Option<usize> = None;
    let mut last_enter: Option<String> = None;
    loop {
        match rx.recv_timeout(timeout) {
            Ok(line) => {
                if let Some(rest) = line.strip_prefix("START ") {
                    current = rest.trim().parse().ok();
                    last_enter = None;
                } else if let Some(rest) = line.strip_prefix("ENTER ") {
                    last_enter = Some(rest.to_string());
                } else if let Some(rest) = line.strip_prefix("DONE ") {
                    let mut it = rest.splitn(3, ' ');
                    let idx: usize = it.next().and_then(|s| s.parse().ok()).unwrap_or(usize::MAX);
                    let entries: u32 = it.next().and_then(|s| s.parse().ok()).unwrap_or(0);
                    let payload = it.next().unwrap_or("");
                    let panics: Vec<PanicInfo> = payload
                        .split('\u{2}')
                        .filter(|s| !s.is_empty())
                        .map(|s| {
                            let p: Vec<&str> = s.split('\u{1}').collect();
                            PanicInfo { entry: p.first().unwrap_or(&"").to_string(), location: p.get(1).unwrap_or(&"").to_string(), message: p.get(2).unwrap_or(&"").to_string() }
                        })
                        .collect();
                    results.push((idx, Outcome::Done(panics, entries), None));
                    current = None;
                }
            }
            Err(std::sync::mpsc::RecvTimeoutError::Timeout) => {
                let _ = child.kill();
                let _ = child.wait();
                if let Some(c) = current {
                    results.push((c, Outcome::Timeout, last_enter.clone()));
                }
                return results;
            }
            Err(std::sync::mpsc::RecvTimeoutError::Disconnected) => break,
        }
    }
    let status = child.wait().ok();
    if let Some(c) = current {
        let how = match status {
            Some(s) => {
                use std::os::unix::process::ExitStatusExt;
                match s.signal() {
                    Some(sig) => format!("signal {sig}"),
                    None => format!("exit status {:?}", s.code()),
                }
            }
            None => "unknown".to_string(),
        };
        results.push((c, Outcome::Died(how), last_enter));
    }
    results
}

pub fn replay(case: &Value) -> Vec<String> {
    let tier = if case["tier"].as_str() == Some("thorough") { Tier::Thorough } else { Tier::Quick };
    let case: Case = match serde_json::from_value(case["case"].clone()) {
        Ok(c) => c,
        Err(_) => return vec![],
    };
    // always in a subprocess, with entry tracing
    let cases = enumerate_cases(tier);
    let idx = match cases.iter().position(|c| *c == case) {
        Some(i) => i,
        None => return vec![],
    };
    let res = run_batch(tier, &[idx], true, Duration::from_secs(60));
    let mut sigs = Vec::new();
    for (_, outcome, entry) in res {
        sigs.extend(signatures_of(&case, &outcome, entry.as_deref()));
    }
    sigs.sort();
    sigs.dedup();
    sigs
}

fn signatures_of(case: &Case, outcome: &Outcome, entry: Option<&str>) -> Vec<String> {
    match outcome {
        Outcome::Done(panics, _) => panics.iter().map(|p| format!("panic:{}", strip_repo(&p.location))).collect(),
        Outcome::Died(how) => vec![format!("process-died({how}):{}:{}", entry.unwrap_or("?").split('[').next().unwrap_or(""), field_class(case))],
        Outcome::Timeout => vec![format!("timeout:{}:{}", entry.unwrap_or("?").split('[').next().unwrap_or(""), field_class(case))],
    }
}

fn strip_repo(loc: &str) -> String {
    // a dependency of the library: name the crate, not where this machine keeps its sources
    if let Some(i) = loc.find("/registry/src/") {
        let rest = &loc[i + "/registry/src/".len()..];
        return match rest.find('/') {
            Some(j) => format!("dependency:{}", &rest[j + 1..]),
            None => rest.to_string(),
        };
    }
    loc.replace("/repo/", "")
}

pub fn run(tier: Tier) -> i32 {
    let ctx = Ctx::new("C07", tier, "fault_enumeration");
    let cases = Arc::new(enumerate_cases(tier));
    let n = cases.len();
    let batch = 24usize;
    let next = AtomicUsize::new(0);
    let done = AtomicU64::new(0);
    let entries_run = AtomicU64::new(0);
    let deep = AtomicU64::new(0);
    let timeouts = AtomicU64::new(0);
    let machinery: Mutex<Vec<String>> = Mutex::new(Vec::new());
    let timeout = Duration::from_secs(std::env::var("VERIF_C07_TIMEOUT_S").ok().and_then(|s| s.parse().ok()).unwrap_or(60));
    let started = Instant::now();
    std::thread::scope(|s| {
        for _ in 0..ctx.threads {
            s.spawn(|| loop {
                let start = next.fetch_add(batch, Ordering::Relaxed);
                if start >= n {
                    break;
                }
                if ctx.over_budget() {
                    ctx.set_capped(format!("wall budget {}s: {} of {} cases run", ctx.budget_s(), done.load(Ordering::Relaxed), n));
                    break;
                }
                if timeouts.load(Ordering::Relaxed) >= 4 {
                    // every further case that hangs costs two timeouts: the violations found so far are reported, the rest is not run
                    ctx.set_capped(format!("stopped after 4 reproducible timeouts: {} of {} cases run", done.load(Ordering::Relaxed), n));
                    break;
                }
                // cases that install process-wide state (the logger) run in a worker process of their own: what they do depends on
                // whether an earlier case of the same process has installed one already
                let all: Vec<usize> = (start..(start + batch).min(n)).collect();
                let solo = |i: &usize| matches!(&cases[*i], Case::Ffi(f, _, _) if FFI_FUNCS[*f].0.contains("log_init"));
                let logged = |i: &usize| matches!(&cases[*i], Case::Logged(_));
                let mut groups: Vec<Vec<usize>> = vec![all.iter().copied().filter(|i| !solo(i) && !logged(i)).collect(), all.iter().copied().filter(|i| logged(i)).collect()];
                groups.extend(all.iter().copied().filter(|i| solo(i)).map(|i| vec![i]));
                for mut todo in groups {
                while !todo.is_empty() {
                    let res = run_batch(tier, &todo, false, timeout);
                    let mut finished = std::collections::BTreeSet::new();
                    for (idx, outcome, _) in &res {
                        finished.insert(*idx);
                        done.fetch_add(1, Ordering::Relaxed);
                        ctx.eval(1);
                        let case = &cases[*idx];
                        let (outcome2, entry2) = match outcome {
                            Outcome::Done(p, entries) => {
                                if *entries >= 40 {
                                    deep.fetch_add(1, Ordering::Relaxed);
                                }
                                for pi in p {
                                    if pi.location.starts_with("/verif/") || pi.location.contains("harness/src") {
                                        machinery.lock().unwrap().push(format!("harness panic at {}: {} ({})", pi.location, pi.message, describe(case)));
                                    }
                                }
                                entries_run.fetch_add(1, Ordering::Relaxed);
                                (None, None)
                            }
                            // re-run in isolation with entry tracing: attributes the death and requires it to reproduce
                            _ => {
                                let again = run_batch(tier, &[*idx], true, timeout);
                                match again.into_iter().next() {
                                    Some((_, o @ (Outcome::Died(_) | Outcome::Timeout), e)) => {
                                        if matches!(o, Outcome::Timeout) {
                                            timeouts.fetch_add(1, Ordering::Relaxed);
                                        }
                                        (Some(o), e)
                                    }
                                    Some((_, Outcome::Done(p, n), _)) => {
                                        // did not reproduce in isolation: not attributed to the subject
                                        machinery.lock().unwrap().push(format!("worker death did not reproduce in isolation for {}", describe(case)));
                                        (Some(Outcome::Done(p, n)), None)
                                    }
                                    None => (None, None),
                                }
                            }
                        };
                        let final_outcome = outcome2.as_ref().unwrap_or(outcome);
                        for sig in signatures_of(case, final_outcome, entry2.as_deref()) {
                            let what = match final_outcome {
                                Outcome::Done(p, _) => {
                                    let first = p.iter().find(|x| sig.contains(&strip_repo(&x.location))).or(p.first());
                                    format!("{} panicked at {}: {} — input: {}", first.map(|x| x.entry.clone()).unwrap_or_default(), first.map(|x| x.location.clone()).unwrap_or_default(), first.map(|x| x.message.clone()).unwrap_or_default(), describe(case))
                                }
                                Outcome::Died(how) => format!("worker process died ({how}) in {} — input: {}", entry2.clone().unwrap_or_default(), describe(case)),
                                Outcome::Timeout => format!("no progress for {}s in {} — input: {}", timeout.as_secs(), entry2.clone().unwrap_or_default(), describe(case)),
                            };
                            let weight = match case {
                                Case::Bundle(d) => d.len() as u64 * 1000 + d.iter().map(|(i, v)| (*i + *v) as u64).sum::<u64>(),
                                Case::Ffi(_, m, p) => 500 + *m as u64 + *p as u64,
                                Case::Logged(_) => 5000,
                                Case::ManyMatched(n, s) => 100 + *n as u64 + *s as u64,
                            };
                            ctx.report(Violation { signature: sig, what, case: json!({"case": case, "tier": tier.name()}), weight });
                        }
                    }
                    todo.retain(|i| !finished.contains(i));
                    if res.is_empty() {
                        machinery.lock().unwrap().push("worker produced no result".to_string());
                        break;
                    }
                }
                }
            });
        }
    });
    let m = machinery.lock().unwrap();
    let harness_panics: Vec<&String> = m.iter().filter(|x| x.starts_with("harness panic")).collect();
    if !harness_panics.is_empty() {
        for x in harness_panics.iter().take(5) {
            eprintln!("MACHINERY-ERROR: {x}");
        }
        return 2;
    }
    let devs = deviations();
    let singles: usize = devs.iter().map(|(_, v)| v.len()).sum();
    let ffi_cases = cases.iter().filter(|c| matches!(c, Case::Ffi(..))).count();
    let mut cov = Coverage::new();
    cov.set("evaluations", json!(done.load(Ordering::Relaxed)))
        .set("distinct_nontrivial", json!(deep.load(Ordering::Relaxed)))
        .set("rule", json!("evaluations = cases executed to completion in worker subprocesses; every case is distinct by construction (a different field value or pointer pattern); distinct_nontrivial = cases in which the hostile value still let the pipeline run deep: at least 40 public entry points were executed (the worker counts them per case), i.e. the value was not rejected at deserialisation or by an early exit"))
        .set("cases_enumerated", json!(n))
        .set("fields_with_hostile_alphabet", json!(devs.len()))
        .set("single_deviation_cases", json!(singles))
        .set("ffi_pointer_pattern_cases", json!(ffi_cases))
        .set("pair_deviation_cases", json!(n - singles - ffi_cases - 1 - cases.iter().filter(|c| matches!(c, Case::Logged(_) | Case::ManyMatched(..))).count()))
        .set("many_matched_rules_cases", json!(cases.iter().filter(|c| matches!(c, Case::ManyMatched(..))).count()))
        .set("cases_with_callback_logger_installed", json!(cases.iter().filter(|c| matches!(c, Case::Logged(_))).count()))
        .set("not_reproduced_worker_deaths", json!(m.iter().filter(|x| x.contains("did not reproduce")).count()))
        .set("samples", json!(cases.iter().step_by((n / 6).max(1)).take(6).map(describe).collect::<Vec<_>>()))
        .set("exhaustive", json!(true))
        .set("wall_enumeration_s", json!(started.elapsed().as_secs_f64()));
    cov.assume("release profile (the shipped one); every case runs on a 2 MiB-stack thread in a worker subprocess; a worker death counts only if it reproduces in isolation")
        .assume("inputs that do not deserialise are outside the property's domain and are skipped");
    finish(&ctx, cov, &replay)
}
