//! C14 — filtering a compressed body equals filtering its decompressed form.
//!
//! Engine E3' (deviation-bounded chunker): codec state is opaque, so partitions of the *compressed*
//! stream are enumerated without merging, bounded by deviations from the default schedule "whole stream
//! in one call": all partitions with <=1 cut (quick) / <=2 cuts (thorough), uniform strides, and an empty
//! chunk inserted before / after every cut. Oracle: an independent decoder must accept the concatenated
//! output as one complete stream whose plaintext equals the plain filtering of the decompressed body.

use crate::common::{finish, par_range, Coverage, Ctx, DistinctSet, Samples, Tier, Violation};
use crate::corpus::{S1, S2};
use crate::engines::chunk::{build_filter, single_chunk, FilterSpec};
use serde::{Deserialize, Serialize};
use serde_json::{json, Value};
use std::io::{Read, Write};
use std::sync::atomic::{AtomicU64, Ordering};

#[derive(Clone, Debug, Serialize, Deserialize, PartialEq, Eq)]
pub enum Enc {
    Gzip(u32),
    Zlib(u32),
    Brotli(u32, u32),
    /// a zlib stream (RFC 1950) that declares a window of 2^bits bytes (bits 8..=14; flate2's own encoder always
    /// declares 2^15, i.e. a first byte 0x78): header and Adler-32 built here around a raw deflate payload
    ZlibWindow(u32),
    /// a gzip member whose header carries the optional FEXTRA, FNAME and FCOMMENT fields
    GzipFields,
}

impl Enc {
    pub fn header(&self) -> &'static str {
        match self {
            Enc::Gzip(_) => "gzip",
            Enc::Zlib(_) => "deflate",
            Enc::Brotli(..) => "br",
            Enc::ZlibWindow(_) => "deflate",
            Enc::GzipFields => "gzip",
        }
    }
    pub fn encode(&self, data: &[u8]) -> Vec<u8> {
        match self {
            Enc::Gzip(l) => {
                let mut e = flate2::write::GzEncoder::new(Vec::new(), flate2::Compression::new(*l));
                e.write_all(data).unwrap();
                e.finish().unwrap()
            }
            Enc::Zlib(l) => {
                let mut e = flate2::write::ZlibEncoder::new(Vec::new(), flate2::Compression::new(*l));
                e.write_all(data).unwrap();
                e.finish().unwrap()
            }
            Enc::Brotli(q, w) => {
                let mut out = Vec::new();
                {
                    let mut e = brotli::CompressorWriter::new(&mut out, 4096, *q, *w);
                    e.write_all(data).unwrap();
                }
                out
            }
            Enc::ZlibWindow(bits) => {
                assert!((8..=14).contains(bits) && data.len() < (1usize << *bits), "back-references must fit the declared window");
                let mut e = flate2::write::DeflateEncoder::new(Vec::new(), flate2::Compression::new(6));
                e.write_all(data).unwrap();
                let payload = e.finish().unwrap();
                let cmf: u8 = (((*bits - 8) as u8) << 4) | 8;
                let mut flg: u8 = 2 << 6; // FLEVEL = default, FDICT = 0
                let rem = ((cmf as u16) * 256 + flg as u16) % 31;
                if rem != 0 {
                    flg += (31 - rem) as u8;
                }
                let (mut a, mut b) = (1u32, 0u32);
                for x in data {
                    a = (a + *x as u32) % 65521;
                    b = (b + a) % 65521;
                }
                let mut out = vec![cmf, flg];
                out.extend(payload);
                out.extend(((b << 16) | a).to_be_bytes());
                out
            }
            Enc::GzipFields => {
                let mut e = flate2::GzBuilder::new()
                    .filename("page.html")
                    .comment("generated <html> comment")
                    .extra(vec![b'A', b'p', 3, 0, 1, 2, 3])
                    .mtime(1_700_000_000)
                    .write(Vec::new(), flate2::Compression::new(6));
                e.write_all(data).unwrap();
                e.finish().unwrap()
            }
        }
    }
    /// independent decode: Ok(plaintext) only if the whole input is exactly one complete stream
    pub fn decode_complete(&self, data: &[u8]) -> Result<Vec<u8>, String> {
        let mut out = Vec::new();
        match self {
            Enc::Gzip(_) | Enc::GzipFields => {
                let mut d = flate2::bufread::GzDecoder::new(data);
                d.read_to_end(&mut out).map_err(|e| format!("gzip decode error: {e}"))?;
                let rest = d.into_inner();
                if !rest.is_empty() {
                    return Err(format!("{} trailing byte(s) after the gzip stream", rest.len()));
                }
            }
            Enc::Zlib(_) | Enc::ZlibWindow(_) => {
                let mut d = flate2::bufread::ZlibDecoder::new(data);
                d.read_to_end(&mut out).map_err(|e| format!("zlib decode error: {e}"))?;
                let rest = d.into_inner();
                if !rest.is_empty() {
                    return Err(format!("{} trailing byte(s) after the zlib stream", rest.len()));
                }
            }
            Enc::Brotli(..) => {
                let mut cur = std::io::Cursor::new(data);
                brotli::BrotliDecompress(&mut cur, &mut out).map_err(|e| format!("brotli decode error: {e}"))?;
                if (cur.position() as usize) < data.len() {
                    return Err(format!("{} trailing byte(s) after the brotli stream", data.len() - cur.position() as usize));
                }
            }
        }
        Ok(out)
    }
}

pub fn bodies() -> Vec<String> {
    vec![
        "<html><head><title>T</title></head><body><div>plain ascii body</div><p>x</p></body></html>".into(),
        "<html><body><div>é𝄞ü — ünïcödé 漢字 text</div><div>second é</div></body></html>".into(),
        "<html><body>".to_string() + &"<p>répété 𝄞</p>".repeat(6) + "</body></html>",
        "<html><body><div>a</div></body></html>".into(),
        "".into(),
        "no markup, only text with ü and 漢".into(),
        // > 64 KiB of plain text in few compressed bytes: one compressed chunk inflates past the codecs' internal buffers
        "<html><body><div>big</div>".to_string() + &"<p>0123456789 répétition abcdefghijklmnopqrstuvwxyz</p>".repeat(1400) + "</body></html>",
        // one single token of 1.2 MiB (an inline style sheet), highly compressible: whatever the HTML stage holds between two calls
        // grows past any "reasonable" limit while the compressed chunks stay tiny
        "<html><head><style>".to_string() + &"div > p.k { color: #123456; margin: 0 auto }\n".repeat(28_000) + "</style></head><body><div>x</div></body></html>",
        // ~200 KiB of high-entropy text: one filter() call makes the re-encoder emit far more than its internal buffer
        {
            let mut s = String::from("<html><body><div>noise</div><p>");
            let mut x: u64 = 0x243F6A8885A308D3;
            for _ in 0..200_000 {
                x = x.wrapping_mul(6364136223846793005).wrapping_add(1442695040888963407);
                s.push((b'!' + ((x >> 33) % 90) as u8) as char);
            }
            s.push_str("</p></body></html>");
            s.replace('<', "(").replacen("(html>(body>(div>noise(/div>(p>", "<html><body><div>noise</div><p>", 1).replace("(/p>(/body>(/html>", "</p></body></html>")
        },
    ]
}

pub fn filter_lists() -> Vec<(&'static str, Vec<FilterSpec>)> {
    vec![
        (
            "append[html,body]+append_text",
            vec![FilterSpec::html("append_child", &["html", "body"], None, S1), FilterSpec::text("append_text", S2)],
        ),
        ("replace[div]", vec![FilterSpec::html("replace", &["div"], None, S1)]),
        ("prepend_text", vec![FilterSpec::text("prepend_text", S1)]),
        // a text replacement emits its content once and swallows the rest: the codec stages still have to see every chunk
        ("replace_text", vec![FilterSpec::text("replace_text", S1)]),
        // an HTML stage BEFORE a text replacement: it still has to see decoded text
        ("append[html,body]+replace_text", vec![FilterSpec::html("append_child", &["html", "body"], None, S2), FilterSpec::text("replace_text", S1)]),
        // a buffering HTML filter (selector) followed by a second HTML stage
        (
            "append[div]sel+prepend[html,body]",
            vec![FilterSpec::html("append_child", &["div"], Some("p.k"), S1), FilterSpec::html("prepend_child", &["html", "body"], None, S2)],
        ),
    ]
}

pub fn encodings(tier: Tier) -> Vec<Enc> {
    match tier {
        Tier::Quick => vec![
            Enc::Gzip(0),
            Enc::Gzip(6),
            Enc::Zlib(1),
            Enc::Zlib(9),
            Enc::Brotli(0, 16),
            Enc::Brotli(5, 22),
            Enc::Brotli(11, 22),
            Enc::ZlibWindow(12),
            Enc::GzipFields,
        ],
        Tier::Thorough => vec![
            Enc::Gzip(0),
            Enc::Gzip(1),
            Enc::Gzip(6),
            Enc::Gzip(9),
            Enc::Zlib(0),
            Enc::Zlib(1),
            Enc::Zlib(6),
            Enc::Zlib(9),
            Enc::Brotli(0, 16),
            Enc::Brotli(0, 22),
            Enc::Brotli(5, 16),
            Enc::Brotli(5, 22),
            Enc::Brotli(11, 16),
            Enc::Brotli(11, 22),
            Enc::ZlibWindow(9),
            Enc::ZlibWindow(12),
            Enc::ZlibWindow(14),
            Enc::GzipFields,
        ],
    }
}

#[derive(Clone, Debug, Serialize, Deserialize)]
pub struct Case {
    pub body: String,
    pub enc: Enc,
    pub header_value: String,
    pub filters: Vec<FilterSpec>,
    pub schedule: Vec<usize>,
}

fn run_compressed(stream: &[u8], header_value: &str, filters: &[FilterSpec], schedule: &[usize]) -> Vec<u8> {
    let headers = vec![("Content-Encoding".to_string(), header_value.to_string())];
    let mut f = build_filter(filters, &headers);
    let mut out = Vec::new();
    let mut off = 0;
    for k in schedule {
        out.extend(f.filter(stream[off..off + k].to_vec(), None));
        off += k;
    }
    assert_eq!(off, stream.len());
    out.extend(f.end(None));
    out
}

fn schedule_class(schedule: &[usize], n: usize) -> String {
    let nonempty: Vec<usize> = schedule.iter().copied().filter(|k| *k > 0).collect();
    let has_empty = schedule.iter().any(|k| *k == 0);
    let base = if nonempty.len() <= 1 {
        "single-chunk".to_string()
    } else if nonempty.len() == 2 {
        "one-cut".to_string()
    } else if nonempty.len() == 3 && !(nonempty[0] == nonempty[1]) {
        "two-cuts".to_string()
    } else if nonempty.iter().take(nonempty.len() - 1).all(|k| *k == nonempty[0]) {
        if nonempty[0] == 1 {
            "stride-1".to_string()
        } else {
            "stride-k".to_string()
        }
    } else if nonempty.len() == 3 {
        "two-cuts".to_string()
    } else {
        format!("{}-chunks", nonempty.len())
    };
    let _ = n;
    if has_empty {
        format!("{base}+empty-chunk")
    } else {
        base
    }
}

pub fn check_schedule(case: &Case, stream: &[u8], want_plain: &[u8]) -> Option<(String, String)> {
    let out = run_compressed(stream, &case.header_value, &case.filters, &case.schedule);
    let class = schedule_class(&case.schedule, stream.len());
    match case.enc.decode_complete(&out) {
        Err(e) => Some((
            format!("output-not-a-complete-stream:{}:{class}", case.enc.header()),
            format!("{e}; body {:?} producer {:?} schedule {:?}", case.body, case.enc, case.schedule),
        )),
        Ok(plain) => {
            if plain != want_plain {
                Some((
                    format!("decoded-output-differs-from-plain-filtering:{}:{class}", case.enc.header()),
                    format!(
                        "decoded {:?}, plain filtering gives {:?}; producer {:?} schedule {:?}",
                        String::from_utf8_lossy(&plain),
                        String::from_utf8_lossy(want_plain),
                        case.enc,
                        case.schedule
                    ),
                ))
            } else {
                None
            }
        }
    }
}

pub fn replay(case: &Value) -> Vec<String> {
    if let Some(h) = case.get("unsupported_header") {
        return check_unsupported(h.as_str().unwrap_or("")).into_iter().map(|(s, _)| s).collect();
    }
    let case: Case = match serde_json::from_value(case.clone()) {
        Ok(c) => c,
        Err(_) => return vec![],
    };
    let stream = case.enc.encode(case.body.as_bytes());
    if case.schedule.iter().sum::<usize>() != stream.len() {
        return vec![];
    }
    let want = single_chunk(case.body.as_bytes(), &case.filters, &[]);
    match crate::common::guarded(|| check_schedule(&case, &stream, &want)) {
        Ok(r) => r.into_iter().map(|(s, _)| s).collect(),
        Err((loc, _)) => vec![format!("panic:{loc}")],
    }
}

/// unsupported / composite encodings: no filter is created and the body passes through untouched
pub fn check_unsupported(header_value: &str) -> Vec<(String, String)> {
    use redirectionio::action::Action;
    use redirectionio::http::Header;
    let mut out = Vec::new();
    let filters = filter_lists()[0].1.clone();
    let headers = vec![("Content-Encoding".to_string(), header_value.to_string())];
    let f = build_filter(&filters, &headers);
    if !f.is_empty() {
        out.push((format!("filter-created-for-unsupported-encoding:{header_value}"), format!("FilterBodyAction::new builds a non-empty chain for Content-Encoding {header_value:?}")));
    }
    let data = b"\x00\x01opaque bytes <html><body></body></html>\xff".to_vec();
    let mut f = build_filter(&filters, &headers);
    let mut got = f.filter(data.clone(), None);
    got.extend(f.end(None));
    if got != data {
        out.push((format!("unsupported-encoding-not-passed-through:{header_value}"), format!("body changed under Content-Encoding {header_value:?}")));
    }
    // through the Action API
    let action_json = json!({
        "status_code_update": null, "header_filters": [], "rule_ids": [], "rule_traces": [], "rules_applied": [], "log_override": null,
        "body_filters": [{"filter": {"action": "append_text", "content": "Z", "id": null, "target_hash": null}, "on_response_status_codes": [], "exclude_response_status_codes": false, "rule_id": null}]
    });
    let mut action: Action = serde_json::from_value(action_json).expect("action");
    let hs = vec![Header { name: "content-encoding".into(), value: header_value.to_string() }];
    if action.create_filter_body(200, &hs).is_some() {
        out.push((format!("action-creates-filter-for-unsupported-encoding:{header_value}"), "create_filter_body returned Some".into()));
    }
    out
}

pub fn schedules(n: usize, tier: Tier) -> Vec<Vec<usize>> {
    schedules_for(n, tier, false)
}

/// `big_body`: the plaintext is large, every run is expensive: use the lattice form whatever the compressed length
pub fn schedules_for(n: usize, tier: Tier, big_body: bool) -> Vec<Vec<usize>> {
    let mut v: Vec<Vec<usize>> = vec![vec![n]];
    if n == 0 {
        v.push(vec![0, 0]);
        return v;
    }
    if n > 100_000 {
        // a compressed stream this long belongs to the high-entropy body: a handful of coarse schedules
        let mut v: Vec<Vec<usize>> = vec![vec![n], vec![n / 2, n - n / 2], vec![0, n, 0]];
        for s in [65536usize, 49152, 1000] {
            let mut sched = vec![s; n / s];
            if n % s != 0 {
                sched.push(n % s);
            }
            v.push(sched);
        }
        return v;
    }
    if n > 1500 || (big_body && n > 64) {
        // long streams (the big body, or stored / level-0 producers): a lattice of cuts and strides
        let step = (n / tier.pick(12, 48)).max(1);
        for p in (1..n).step_by(step) {
            v.push(vec![p, n - p]);
            v.push(vec![p, 0, n - p]);
        }
        let strides: Vec<usize> = tier.pick(vec![n / 2 + 1, 8192, 257], vec![n / 2 + 1, n / 3, n / 7, 8192, 4096, 1024, 257, 64]);
        for s in strides {
            if s == 0 || s >= n {
                continue;
            }
            let mut sched = vec![s; n / s];
            if n % s != 0 {
                sched.push(n % s);
            }
            v.push(sched);
        }
        let third = n / 3;
        v.push(vec![third, third, n - 2 * third]);
        return v;
    }
    // one cut, plus an empty chunk before / after it and at both ends
    for p in 1..n {
        v.push(vec![p, n - p]);
        {
            v.push(vec![p, 0, n - p]);
        }
    }
    v.push(vec![0, n]);
    v.push(vec![n, 0]);
    // strides
    let strides: Vec<usize> = (1..n).collect();
    for s in strides {
        if s >= n {
            continue;
        }
        let mut sched = vec![s; n / s];
        if n % s != 0 {
            sched.push(n % s);
        }
        v.push(sched);
    }
    if tier == Tier::Thorough {
        for p in 1..n {
            for q in p + 1..n {
                v.push(vec![p, q - p, n - q]);
            }
        }
    } else {
        // a lattice of two-cut schedules (every 3rd x every 4th offset)
        for p in (1..n).step_by(3) {
            for q in (p + 1..n).step_by(4) {
                v.push(vec![p, q - p, n - q]);
            }
        }
    }
    v
}

pub fn run(tier: Tier) -> i32 {
    let ctx = Ctx::new("C14", tier, "exploration");
    let mut work: Vec<(String, Enc, String, &'static str, Vec<FilterSpec>)> = Vec::new();
    for b in bodies() {
        for enc in encodings(tier) {
            for (fi, (fname, f)) in filter_lists().into_iter().enumerate() {
                // the big body only with one representative producer per codec and the first filter list
                if b.len() > 30000 && (fi > 0 || !matches!(enc, Enc::Gzip(6) | Enc::Zlib(1) | Enc::Brotli(5, 22))) {
                    continue;
                }
                // the high-entropy body: flate2 codecs only (brotli quality 11 on 200 KiB of noise is too slow per schedule)
                if b.contains("<div>noise</div>") && matches!(enc, Enc::Brotli(..)) {
                    continue;
                }
                let hv = if work.len() % 5 == 0 { enc.header().to_uppercase() } else { enc.header().to_string() };
                work.push((b.clone(), enc.clone(), hv, fname, f));
            }
        }
    }
    let runs = AtomicU64::new(0);
    let filtered = AtomicU64::new(0);
    let distinct = DistinctSet::new();
    let samples = Samples::new(5);
    let max_stream = AtomicU64::new(0);
    par_range(ctx.threads, work.len(), |i| {
        if ctx.over_budget() {
            ctx.set_capped(format!("wall budget {}s", ctx.budget_s()));
            return;
        }
        let (body, enc, hv, fname, filters) = &work[i];
        let stream = enc.encode(body.as_bytes());
        max_stream.fetch_max(stream.len() as u64, Ordering::Relaxed);
        // producer self-check
        assert_eq!(enc.decode_complete(&stream).expect("producer stream decodes"), body.as_bytes());
        let want = single_chunk(body.as_bytes(), filters, &[]);
        if want != body.as_bytes() {
            filtered.fetch_add(1, Ordering::Relaxed);
        }
        for sched in schedules_for(stream.len(), tier, body.len() > 30000) {
            let case = Case { body: body.clone(), enc: enc.clone(), header_value: hv.clone(), filters: filters.clone(), schedule: sched };
            runs.fetch_add(1, Ordering::Relaxed);
            let res = match crate::common::watched(|| { let mut c = serde_json::to_value(&case).unwrap(); c["watch_label"] = json!(case.enc.header()); c }, || crate::common::guarded(|| check_schedule(&case, &stream, &want))) {
                Ok(r) => r,
                Err((loc, msg)) => Some((format!("panic:{loc}"), format!("panicked at {loc}: {msg}; producer {:?} schedule {:?}", case.enc, case.schedule))),
            };
            if let Some((sig, what)) = res {
                ctx.report(Violation {
                    signature: sig,
                    what: format!("filters {fname}: {what}"),
                    weight: (case.schedule.len() * 1000 + stream.len()) as u64,
                    case: serde_json::to_value(&case).unwrap(),
                });
            }
        }
        distinct.insert_str(&format!("{body}{enc:?}{fname}"));
        if i % 17 == 0 {
            samples.offer(|| json!({"body": body, "producer": format!("{enc:?}"), "content_encoding": hv, "filters": fname, "compressed_len": stream.len(), "schedules": schedules(stream.len(), tier).len()}));
        }
    });
    for hv in ["identity", "compress", "zstd", "gzip, br", "x-gzip", "", "GZIP2"] {
        runs.fetch_add(1, Ordering::Relaxed);
        for (sig, what) in check_unsupported(hv) {
            ctx.report(Violation { signature: sig, what, case: json!({"unsupported_header": hv}), weight: 1 });
        }
    }
    let mut cov = Coverage::new();
    cov.set("evaluations", json!(runs.load(Ordering::Relaxed)))
        .set("distinct_nontrivial", json!(distinct.len()))
        .set("rule", json!("evaluations = chunk schedules of compressed streams executed and decoded by an independent decoder; distinct_nontrivial = distinct (body, producer parameters, filter list) streams; streams_where_a_filter_acted counted separately"))
        .set("streams", json!(work.len()))
        .set("streams_where_a_filter_acted", json!(filtered.load(Ordering::Relaxed)))
        .set("max_compressed_len", json!(max_stream.load(Ordering::Relaxed)))
        .set("samples", json!(samples.take()))
        .set("exhaustive", json!(true))
        .set("bound", json!(match tier {
            Tier::Quick => "per stream: the single-chunk schedule, ALL one-cut partitions, an empty chunk at every cut and at both ends, ALL uniform strides 1..n, a lattice (every 3rd x every 4th offset) of two-cut partitions",
            Tier::Thorough => "per stream: ALL partitions with <=2 cuts, an empty chunk at every cut and at both ends, ALL uniform strides 1..n",
        }));
    cov.assume("flate2 / brotli as origin-server producers and as independent decoders are trusted").assume("no state merging: codec state is opaque (manual Debug)");
    finish(&ctx, cov, &replay)
}
