//! C03 — body filtering is invariant under chunking of the response stream.
//!
//! Engine E3 (engines/chunk.rs): for every (body, filter list, headers) of the corpus, every partition
//! of the body (empty chunks included) is explored by BFS with state merging; oracle: the one-chunk run
//! of the same filters.

use crate::common::{finish, par_range, Coverage, Ctx, Samples, Tier, Violation};
use crate::corpus::{classify_cut, classify_schedule, curated_bodies, filter_lists, grammar_bodies, token_spans};
use crate::engines::chunk::{all_partitions_outputs, explore, run_schedule, single_chunk, FilterSpec};
use serde_json::{json, Value};
use std::sync::atomic::{AtomicU64, Ordering};

pub type Headers = Vec<(String, String)>;

pub fn header_sets() -> Vec<(&'static str, Headers)> {
    vec![
        ("none", vec![]),
        ("text/html", vec![("Content-Type".into(), "text/html".into())]),
        ("text/html;charset", vec![("content-type".into(), "text/html; charset=utf-8".into())]),
        ("application/json", vec![("Content-Type".into(), "application/json".into())]),
    ]
}

/// Violations of chunking invariance for one case: (signature, what, witness schedule)
pub fn check_case(body: &[u8], filters: &[FilterSpec], headers: &Headers, stats: Option<(&AtomicU64, &AtomicU64, &AtomicU64)>) -> Vec<(String, String, Vec<usize>)> {
    let reference = single_chunk(body, filters, headers);
    let ex = explore(body, filters, headers, true, true);
    if let Some((s, t, m)) = stats {
        s.fetch_add(ex.states, Ordering::Relaxed);
        t.fetch_add(ex.transitions, Ordering::Relaxed);
        m.fetch_max(ex.max_chunks as u64, Ordering::Relaxed);
    }
    let wrong: Vec<(&Vec<u8>, &Vec<usize>)> = ex.finals.iter().filter(|(out, _)| **out != reference).collect();
    if !wrong.is_empty() && std::str::from_utf8(body).is_err() {
        // A body that is not valid UTF-8. The filter fails on the call that contains the fault: delivered in one chunk the whole
        // body passes through, delivered in several the chunks BEFORE the faulty one have been filtered already. That divergence
        // is the library's error fallback by design (one signature, listed as an open finding). Everything else - bytes lost,
        // duplicated or permuted on the way - is reported under a signature of its own.
        let relation = crate::props::c04::relation_for(body, filters, headers);
        let mut out = Vec::new();
        let mut seen = std::collections::BTreeSet::new();
        for (got, hist) in wrong {
            let (sig, why) = match crate::props::c04::check_output(body, relation, got) {
                None => ("invalid-utf8-body:chunks-before-the-fault-are-filtered".to_string(), "the chunked output is the input with the edits of the chunks that precede the fault".to_string()),
                Some((kind, why)) => (format!("invalid-utf8-body:{kind}"), why),
            };
            if seen.insert(sig.clone()) {
                out.push((
                    sig,
                    format!("body {:?} schedule {hist:?}: chunked output {:?} != one-chunk output {:?} ({why})", String::from_utf8_lossy(body), String::from_utf8_lossy(got), String::from_utf8_lossy(&reference)),
                    hist.clone(),
                ));
            }
        }
        return out;
    }
    if wrong.is_empty() {
        if ex.capped {
            return vec![("state-explosion".to_string(), format!("more than {} distinct filter states for body {:?}: exploration of this case is incomplete", crate::engines::chunk::MAX_STATES_PER_CASE, String::from_utf8_lossy(body)), vec![])];
        }
        return vec![];
    }
    let mut out = Vec::new();
    let names: Vec<String> = filters
        .iter()
        .flat_map(|f| match f {
            FilterSpec::Html { path, .. } => path.clone(),
            _ => vec![],
        })
        .collect();
    // simplest explanations first: all single-cut schedules
    let n = body.len();
    let spans = token_spans(body);
    let mut seen_ctx = std::collections::BTreeSet::new();
    for p in 1..n {
        let got = run_schedule(body, filters, headers, &[p, n - p]);
        if got != reference {
            let ctx = classify_cut(body, &spans, p, &names);
            if seen_ctx.insert(ctx.clone()) {
                out.push((
                    ctx,
                    format!(
                        "body {:?} cut at byte {p}: chunked output {:?} != one-chunk output {:?}",
                        String::from_utf8_lossy(body),
                        String::from_utf8_lossy(&got),
                        String::from_utf8_lossy(&reference)
                    ),
                    vec![p, n - p],
                ));
            }
        }
    }
    if out.is_empty() {
        // no single cut explains it: report the shortest witnesses found by the BFS
        for (got, hist) in wrong {
            let sig = classify_schedule(body, hist, &names);
            if seen_ctx.insert(sig.clone()) {
                out.push((
                    sig,
                    format!(
                        "body {:?} schedule {hist:?}: chunked output {:?} != one-chunk output {:?}",
                        String::from_utf8_lossy(body),
                        String::from_utf8_lossy(got),
                        String::from_utf8_lossy(&reference)
                    ),
                    hist.clone(),
                ));
            }
        }
    }
    out
}

pub fn replay(case: &Value) -> Vec<String> {
    if let Some(r) = super::big::replay("C03", case) {
        return r;
    }
    let body: Vec<u8> = serde_json::from_value(case["body"].clone()).unwrap_or_default();
    let filters: Vec<FilterSpec> = serde_json::from_value(case["filters"].clone()).unwrap_or_default();
    let headers: Headers = serde_json::from_value(case["headers"].clone()).unwrap_or_default();
    match crate::common::guarded(|| check_case(&body, &filters, &headers, None)) {
        Ok(v) => v.into_iter().map(|(s, _, _)| s).collect(),
        Err((loc, _)) => vec![format!("panic:{loc}")],
    }
}

pub struct Case {
    pub body: Vec<u8>,
    pub filters_name: String,
    pub filters: Vec<FilterSpec>,
    pub headers: Headers,
}

pub fn cases(tier: Tier) -> Vec<Case> {
    let fl = filter_lists();
    let hs = header_sets();
    let mut out = Vec::new();
    for b in curated_bodies() {
        for (name, f) in &fl {
            out.push(Case { body: b.clone().into_bytes(), filters_name: name.to_string(), filters: f.clone(), headers: vec![] });
        }
        // header variants on two representative lists
        for (hn, h) in hs.iter().skip(1) {
            for idx in [0usize, 3] {
                out.push(Case {
                    body: b.clone().into_bytes(),
                    filters_name: format!("{}@{}", fl[idx].0, hn),
                    filters: fl[idx].1.clone(),
                    headers: h.clone(),
                });
            }
        }
    }
    // bodies that are not valid UTF-8: one fault byte at every 5th (quick) / every position of a few curated documents
    let two_html = fl.iter().position(|(n, _)| *n == "append[html,body]+replace[div]").unwrap_or(0);
    for b in curated_bodies().iter().take(tier.pick(3, 8)) {
        let bytes = b.as_bytes();
        for pos in (0..=bytes.len()).step_by(tier.pick(5, 1)) {
            let mut fb = bytes[..pos].to_vec();
            fb.push(0xFF);
            fb.extend_from_slice(&bytes[pos..]);
            for idx in [0usize, 1, 3, two_html] {
                out.push(Case { body: fb.clone(), filters_name: format!("{}+faultff@{pos}", fl[idx].0), filters: fl[idx].1.clone(), headers: vec![] });
            }
        }
    }
    let gl = tier.pick(3, 4);
    // quick: four representative lists + the first raw-text target; thorough: all lists
    let picked: Vec<usize> = tier.pick(vec![0, 1, 2, 3, 13], (0..fl.len()).collect());
    for b in grammar_bodies(gl) {
        for i in &picked {
            let (name, f) = &fl[*i];
            out.push(Case { body: b.clone().into_bytes(), filters_name: name.to_string(), filters: f.clone(), headers: vec![] });
        }
    }
    out
}

pub fn run(tier: Tier) -> i32 {
    let ctx = Ctx::new("C03", tier, "model_checking");
    let cases = cases(tier);
    let states = AtomicU64::new(0);
    let transitions = AtomicU64::new(0);
    let max_chunks = AtomicU64::new(0);
    let nontrivial = AtomicU64::new(0);
    let crosschecked = AtomicU64::new(0);
    let cross_partitions = AtomicU64::new(0);
    let samples = Samples::new(5);
    let done = AtomicU64::new(0);
    par_range(ctx.threads, cases.len(), |i| {
        if ctx.over_budget() {
            ctx.set_capped(format!("wall budget {}s", ctx.budget_s()));
            return;
        }
        let c = &cases[i];
        ctx.eval(1);
        done.fetch_add(1, Ordering::Relaxed);
        let case_json = || json!({"body": c.body, "body_text": String::from_utf8_lossy(&c.body), "filters": c.filters, "headers": c.headers, "schedule": [c.body.len()], "watch_label": "chunked-filtering"});
        let reference = match crate::common::watched(case_json, || crate::common::guarded(|| single_chunk(&c.body, &c.filters, &c.headers))) {
            Ok(r) => r,
            Err((loc, msg)) => {
                ctx.report(Violation {
                    signature: format!("panic:{loc}"),
                    what: format!("filters {}: the filter chain panicked at {loc}: {msg}; body {:?} delivered as one chunk", c.filters_name, String::from_utf8_lossy(&c.body)),
                    case: json!({"body": c.body, "body_text": String::from_utf8_lossy(&c.body), "filters": c.filters, "headers": c.headers, "schedule": [c.body.len()]}),
                    weight: c.body.len() as u64,
                });
                return;
            }
        };
        if reference != c.body {
            nontrivial.fetch_add(1, Ordering::Relaxed);
        }
        let checked = match crate::common::watched(case_json, || crate::common::guarded(|| check_case(&c.body, &c.filters, &c.headers, Some((&states, &transitions, &max_chunks))))) {
            Ok(v) => v,
            Err((loc, msg)) => vec![(format!("panic:{loc}"), format!("the filter chain panicked at {loc}: {msg}; body {:?}", String::from_utf8_lossy(&c.body)), vec![])],
        };
        for (sig, what, hist) in checked {
            if sig == "state-explosion" {
                ctx.set_capped(what);
                continue;
            }
            let cuts = hist.iter().filter(|k| **k > 0).count() as u64;
            ctx.report(Violation {
                signature: sig,
                what: format!("filters {}: {}", c.filters_name, what),
                case: json!({"body": c.body, "body_text": String::from_utf8_lossy(&c.body), "filters": c.filters, "headers": c.headers, "schedule": hist}),
                weight: cuts * 1000 + c.body.len() as u64,
            });
        }
        // abstraction cross-check: unmerged enumeration of all partitions for short bodies
        if c.body.len() <= 13 && !c.body.is_empty() {
            let both = crate::common::guarded(|| (all_partitions_outputs(&c.body, &c.filters, &c.headers), explore(&c.body, &c.filters, &c.headers, false, true)));
            let ((count, finals), merged) = match both {
                Ok(v) => v,
                Err(_) => return,
            };
            crosschecked.fetch_add(1, Ordering::Relaxed);
            cross_partitions.fetch_add(count, Ordering::Relaxed);
            let a: Vec<&Vec<u8>> = finals.keys().collect();
            let b: Vec<&Vec<u8>> = merged.finals.keys().collect();
            if a != b {
                eprintln!(
                    "MACHINERY-ERROR: state merging changed the set of terminal outputs for body {:?} filters {}",
                    String::from_utf8_lossy(&c.body),
                    c.filters_name
                );
                std::process::exit(2);
            }
        }
        if i % 1013 == 7 {
            samples.offer(|| {
                json!({"body": String::from_utf8_lossy(&c.body), "filters": c.filters_name, "one_chunk_output": String::from_utf8_lossy(&reference),
                       "partitions_covered": format!("all 2^{} (+ empty chunks)", c.body.len().saturating_sub(1))})
            });
        }
    });
    let (big_cases, big_schedules) = super::big::run(&ctx, "C03", tier == Tier::Thorough);
    let mut cov = Coverage::new();
    cov.set("size_threshold_pass", json!({"cases": big_cases, "schedules_executed": big_schedules, "run_lengths": super::big::runs(tier == Tier::Thorough), "constructs": super::big::CONSTRUCTS.iter().map(|c| format!("{c:?}")).collect::<Vec<_>>(),
        "what": "generated documents with one long run inside one construct; one chunk vs strides 1000..100000 and single cuts around the run"}));
    let st = states.load(Ordering::Relaxed);
    let tr = transitions.load(Ordering::Relaxed);
    cov.set("states", json!(st))
        .set("transitions", json!(tr))
        .set("traces_validated_against_impl", json!(tr))
        .set("samples", json!(samples.take()))
        .set("evaluations", json!(done.load(Ordering::Relaxed)))
        .set("distinct_nontrivial", json!(nontrivial.load(Ordering::Relaxed)))
        .set("rule", json!("one evaluation = one (body, filter list, headers) case with ALL its chunk partitions explored; non-trivial = the one-chunk output differs from the body (a filter acted)"))
        .set("cases", json!(cases.len()))
        .set("max_chunks_in_a_shortest_history", json!(max_chunks.load(Ordering::Relaxed)))
        .set("abstraction_crosscheck", json!({"cases": crosschecked.load(Ordering::Relaxed), "unmerged_partitions": cross_partitions.load(Ordering::Relaxed), "result": "same terminal output sets"}))
        .set("exhaustive", json!(true))
        .set("bound", json!(format!("bodies: curated corpus ({} docs) x {} filter lists (+ header variants) and all sequences of <= {} grammar tokens x {} filter lists; every partition of every body", curated_bodies().len(), filter_lists().len(), tier.pick(3, 4), tier.pick(5, filter_lists().len()))));
    cov.assume("state merging keys on the derived Debug rendering of FilterBodyAction (all fields of the HTML/text stages); validated per run by the unmerged cross-check on bodies <= 13 bytes")
        .assume("compressed chains are C14's subject");
    finish(&ctx, cov, &replay)
}
