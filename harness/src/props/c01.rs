//! C01 — rule matching is exact: no missed rule, no spurious rule, no duplicates.
//!
//! Engine E1 (router-state explorer), insert-only histories over the star-and-pairs trigger universe,
//! all flag configurations; oracle: flat per-trigger predicate `sat` + any-host policy per scheme scope.

use crate::common::{finish, Coverage, Ctx, Tier};
use crate::engines::bfs::explore;
use crate::engines::router_mc::{replay_history, Checks, Model, Op, World};
use crate::universe::{star_and_pairs_universe, Cfg};
use serde_json::{json, Value};
use std::sync::atomic::Ordering;

pub fn world_from_desc(desc: &Value) -> World {
    let pairs = desc["pairs"].as_u64().unwrap_or(1) as u8;
    let max_dev = desc["max_dev"].as_u64().unwrap_or(2) as usize;
    let ncfg = desc["cfgs"].as_u64().unwrap_or(16) as u32;
    let cfgs: Vec<Cfg> = cfg_list(ncfg);
    if desc["kind"].as_str() == Some("host-focus") {
        return World::new(crate::universe::host_focus_universe(), cfgs, max_dev, desc.clone());
    }
    World::new(star_and_pairs_universe(pairs), cfgs, max_dev, desc.clone())
}

pub fn cfg_list(n: u32) -> Vec<Cfg> {
    if n >= 16 {
        (0..16).map(Cfg::from_bits).collect()
    } else {
        // all-off, all-on, and the two single-flag settings that change candidate selection most
        let all = vec![Cfg::from_bits(0), Cfg::from_bits(15), Cfg::from_bits(8), Cfg::from_bits(7)];
        all.into_iter().take(n.max(1) as usize).collect()
    }
}

pub fn replay_with(prop: &'static str, checks: Checks, case: &Value) -> Vec<String> {
    if let Some(r) = super::many::replay(if checks.c17 { "C17" } else { "C01" }, case) {
        return r;
    }
    let ctx = Ctx::new(prop, Tier::Quick, "model_checking");
    let world = world_from_desc(&case["world"]);
    let history: Vec<Op> = match serde_json::from_value(case["history"].clone()) {
        Ok(h) => h,
        Err(_) => return vec![],
    };
    let cfg = case["cfg_index"].as_u64().unwrap_or(0) as usize;
    if cfg >= world.cfgs.len() {
        return vec![];
    }
    replay_history(&ctx, &world, checks, cfg, &history);
    ctx.signatures()
}

pub fn replay(case: &Value) -> Vec<String> {
    replay_with("C01", Checks { c01: true, ..Default::default() }, case)
}

pub fn run_insert_only(prop: &'static str, checks: Checks, tier: Tier) -> i32 {
    let ctx = Ctx::new(prop, tier, "model_checking");
    let mut states = 0u64;
    let mut transitions = 0u64;
    let mut match_calls = 0u64;
    let mut nonempty = 0u64;
    let mut outcomes = 0usize;
    let mut samples = Vec::new();
    let mut runs = Vec::new();
    // (pairs level, #cfgs, depth, max_dev)
    let plans: Vec<(u8, u32, usize, usize)> = match (tier, checks.c17) {
        (Tier::Quick, false) => vec![(2, 2, 1, 2), (1, 4, 2, 1)],
        (Tier::Thorough, false) => vec![(2, 16, 1, 2), (1, 16, 2, 2), (1, 2, 3, 1)],
        // tracing and serialising a trace is ~30x the cost of a match: smaller plans
        (Tier::Quick, true) => vec![(1, 2, 1, 2), (1, 2, 2, 1)],
        (Tier::Thorough, true) => vec![(2, 4, 1, 2), (1, 16, 2, 1), (1, 2, 2, 2)],
    };
    // pairs level 9 = the host-focus universe (all insertion orders of its small subsets)
    let mut plans = plans;
    // (tracing costs ~30x a match: one level less for C17)
    plans.push((9, tier.pick(2, 4), if checks.c17 { tier.pick(3, 4) } else { tier.pick(4, 5) }, 1));
    for (pairs, ncfg, depth, max_dev) in plans {
        let desc = if pairs == 9 {
            json!({"kind": "host-focus", "pairs": 0, "max_dev": max_dev, "cfgs": ncfg})
        } else {
            json!({"kind": "star-and-pairs", "pairs": pairs, "max_dev": max_dev, "cfgs": ncfg})
        };
        let world = world_from_desc(&desc);
        let mut model = Model::new(&ctx, &world, checks);
        model.ops_insert_only = true;
        let st = explore(&ctx, &model, depth);
        states += st.states;
        transitions += st.transitions;
        match_calls += model.match_calls.load(Ordering::Relaxed);
        nonempty += model.nonempty.load(Ordering::Relaxed);
        outcomes += model.outcomes.len();
        samples.extend(model.samples.take().into_iter().rev().take(3));
        runs.push(json!({"universe": desc, "universe_rules": world.universe.len(), "configurations": world.cfgs.len(), "insert_depth": depth,
            "completed_depth": st.completed_depth, "states": st.states, "transitions": st.transitions, "states_per_depth": st.states_per_depth,
            "match_calls": model.match_calls.load(Ordering::Relaxed)}));
    }
    let (many_cases, many_probes) = super::many::run(&ctx, if checks.c17 { "C17" } else { "C01" }, tier == Tier::Thorough);
    match_calls += many_probes;
    let mut cov = Coverage::new();
    cov.set("many_rules_pass", json!({"cases": many_cases, "probes_judged": many_probes, "families": super::many::DIMS, "sizes": [60, 130],
        "what": "routers holding 60 / 130 rules that differ in ONE trigger dimension; for every rule the request satisfying it alone is matched (C01: against the flat predicate) / traced (C17: trace == match, final priority, last action step), cold and after cache(None)"}));
    cov.set("states", json!(states))
        .set("transitions", json!(transitions))
        .set("traces_validated_against_impl", json!(transitions))
        .set("samples", json!(samples))
        .set("evaluations", json!(match_calls))
        .set("distinct_nontrivial", json!(outcomes))
        .set("rule", json!("evaluations = (state, probe request) pairs judged; distinct_nontrivial = distinct vectors of match results over a state's probe set; nonempty_matches counts probes with a non-empty match set"))
        .set("nonempty_matches", json!(nonempty))
        .set("runs", json!(runs))
        .set("probe_rule", json!("for every live rule: its all-satisfying request and every request differing from it in <= max_dev trigger dimensions (all probe values of those dimensions), plus one irrelevant request"))
        .set("exhaustive", json!(true));
    cov.assume("ASCII paths only (URL normalisation is C09)")
        .assume("`not_in_range` rule x request without client address and `exclude_methods:false` are not asserted either way (statement silent)")
        .assume("request timestamps are overwritten with alphabet values (no wall clock)");
    let p = prop;
    finish(&ctx, cov, &move |case| replay_with(p, checks, case))
}

pub fn run(tier: Tier) -> i32 {
    run_insert_only("C01", Checks { c01: true, ..Default::default() }, tier)
}
