//! C09 — URL normalisation is canonical: rules and requests agree on equivalent URLs.
//!
//! Engine E4: all 2^6 flag combinations x 2 marketing sets x a URL alphabet (paths x ordered parameter
//! lists); metamorphic relations between the rule-side and the request-side normalisation.

use crate::common::{finish, par_range, permutations, Coverage, Ctx, DistinctSet, Samples, Tier, Violation};
use redirectionio::action::Action;
use redirectionio::api::Rule;
use redirectionio::http::Request;
use redirectionio::router::Router;
use redirectionio::RouterConfig;
use serde_json::{json, Value};
use std::collections::{BTreeMap, HashSet};

pub const PATHS: &[&str] = &["/a", "/A", "/a b", "/a%20b", "/é", "/a\"q", "/a<b>", "/a+b", "/a{b}", "/a`b", "/a|c"];
pub const PARAMS: &[&str] = &["a=1", "b=2", "a=3", "c=", "d", "e=x%20y", "f=x+y", "g=é", "utm_source=z", "ref=r", "B=2", "h=1%2B2", "i=x%26", "é=1", "z=9", "a2=5", "hsCta=t", "="];

#[derive(Clone, Debug, serde::Serialize, serde::Deserialize)]
pub struct Case {
    pub flags: u32,
    pub marketing_set: usize,
    pub path: String,
    pub params: Vec<String>,
    /// the rule declares a marker that its path and query do not use (the source is still a literal URL)
    #[serde(default)]
    pub unused_marker: bool,
}

pub fn config(flags: u32, marketing_set: usize) -> RouterConfig {
    let mut c = RouterConfig::default();
    c.ignore_host_case = flags & 1 != 0;
    c.ignore_header_case = flags & 2 != 0;
    c.ignore_path_and_query_case = flags & 4 != 0;
    c.ignore_marketing_query_params = flags & 8 != 0;
    c.pass_marketing_query_params_to_target = flags & 16 != 0;
    c.always_match_any_host = flags & 32 != 0;
    if marketing_set == 1 {
        let mut s = HashSet::new();
        s.insert("utm_source".to_string());
        s.insert("ref".to_string());
        // a configured name with upper-case letters (names are compared as configured, whatever the case mode)
        s.insert("hsCta".to_string());
        c.marketing_query_params = s;
    }
    c
}

fn url(path: &str, params: &[String]) -> String {
    if params.is_empty() {
        path.to_string()
    } else {
        format!("{path}?{}", params.join("&"))
    }
}

fn rule_for(path: &str, params: &[String], target: &str) -> Rule {
    rule_for_m(path, params, target, false)
}

fn rule_for_m(path: &str, params: &[String], target: &str, unused_marker: bool) -> Rule {
    let query = if params.is_empty() { Value::Null } else { json!(params.join("&")) };
    let markers = if unused_marker { json!([{"name": "unusedmarker", "regex": "[a-z]+", "transformers": []}]) } else { json!([]) };
    serde_json::from_value(json!({
        "markers": markers,
        "id": "r", "source": {"scheme": null, "host": null, "ips": null, "path": path, "query": query, "headers": null, "methods": null,
        "exclude_methods": null, "response_status_codes": null, "exclude_response_status_codes": null, "sampling": null},
        "target": target, "status_code": 301, "rank": 1, "body_filters": null, "header_filters": null, "log_override": null, "reset": null, "stop": null,
        "examples": null, "redirect_unit_id": null, "configuration_log_unit_id": null, "configuration_reset_unit_id": null, "target_hash": null
    }))
    .expect("rule")
}

fn request(rc: &RouterConfig, u: &str) -> Request {
    let mut r = Request::from_config(rc, u.to_string(), Some("h.example".into()), Some("https".into()), None, None, None);
    r.created_at = None;
    r
}

fn matches(router: &Router<Rule>, rc: &RouterConfig, u: &str) -> bool {
    !router.match_request(&request(rc, u)).is_empty()
}

fn key_of(p: &str) -> &str {
    p.split('=').next().unwrap_or("")
}

fn is_marketing(rc: &RouterConfig, p: &str) -> bool {
    rc.marketing_query_params.contains(key_of(p))
}

fn swap_case(s: &str) -> String {
    s.chars()
        .map(|c| {
            if c.is_ascii_lowercase() {
                c.to_ascii_uppercase()
            } else if c.is_ascii_uppercase() {
                c.to_ascii_lowercase()
            } else {
                c
            }
        })
        .collect()
}

/// features of a URL that the two normalisation paths treat differently (used to name failure classes)
fn url_class(rc: &RouterConfig, params: &[String]) -> String {
    let mut f: Vec<&str> = Vec::new();
    let keys: Vec<&str> = params.iter().map(|p| key_of(p)).collect();
    let mut sorted = keys.clone();
    sorted.sort();
    if rc.ignore_marketing_query_params && params.iter().any(|p| is_marketing(rc, p)) {
        f.push("rule-source-has-marketing-key");
    }
    if sorted != keys {
        f.push("unsorted-query");
    }
    let mut dedup = sorted.clone();
    dedup.dedup();
    if dedup.len() != keys.len() {
        f.push("duplicate-key");
    }
    if params.iter().any(|p| p.contains('+')) {
        f.push("plus-in-query");
    }
    if params.iter().any(|p| key_of(p).is_empty()) {
        f.push("empty-name");
    }
    if params.iter().any(|p| p.ends_with('=') && !key_of(p).is_empty()) {
        f.push("empty-value");
    }
    if params.iter().any(|p| !p.is_ascii()) {
        f.push("non-ascii-query");
    }
    if f.is_empty() {
        f.push("plain");
    }
    f.join("+")
}

pub fn check_case(case: &Case) -> Vec<(String, String)> {
    let rc = config(case.flags, case.marketing_set);
    let mut out = Vec::new();
    let u = url(&case.path, &case.params);
    let flags = format!(
        "ignore_marketing={},ignore_case={}{}",
        rc.ignore_marketing_query_params,
        rc.ignore_path_and_query_case,
        if case.unused_marker { ",rule-declares-an-unused-marker" } else { "" }
    );
    let class = url_class(&rc, &case.params);
    let mut router = Router::<Rule>::from_config(rc.clone());
    router.insert(rule_for_m(&case.path, &case.params, "/t", case.unused_marker));
    // keys whose sorted order changes when they are lower-cased (sorting happens before lower-casing)
    let order_depends_on_case = {
        let keys: Vec<&str> = case.params.iter().map(|p| key_of(p)).collect();
        let mut a: Vec<String> = keys.iter().map(|k| k.to_string()).collect();
        a.sort();
        let a: Vec<String> = a.into_iter().map(|k| k.to_lowercase()).collect();
        let mut b: Vec<String> = keys.iter().map(|k| k.to_lowercase()).collect();
        b.sort();
        let mut c: Vec<String> = keys.iter().map(|k| swap_case(k)).collect();
        c.sort();
        let c: Vec<String> = c.into_iter().map(|k| k.to_lowercase()).collect();
        a != b || c != b
    };
    let mut fail = |relation: &str, what: String| {
        let cause = if class.contains("rule-source-has-marketing-key") && (relation == "self-match" || relation == "permutation") {
            "rule-source-has-marketing-key".to_string()
        } else if relation == "case-insensitive" && order_depends_on_case {
            "key-order-depends-on-case".to_string()
        } else {
            format!("{class}:{flags}")
        };
        out.push((format!("{relation}:{cause}"), what));
    };

    // (1) a rule written from a URL matches a request for that URL
    let self_match = matches(&router, &rc, &u);
    if !self_match {
        fail("self-match", format!("rule with source path {:?} query {:?} does not match a request for {u:?}", case.path, case.params.join("&")));
    }

    let keys: Vec<&str> = case.params.iter().map(|p| key_of(p)).collect();
    let distinct_keys = {
        let mut k = keys.clone();
        k.sort();
        k.dedup();
        k.len() == keys.len()
    };
    let no_marketing_in_rule = !case.params.iter().any(|p| is_marketing(&rc, p));

    if self_match {
        // (3) order of query parameters is irrelevant
        if distinct_keys && case.params.len() >= 2 {
            let n = case.params.len();
            // every permutation of short queries; for long ones (count thresholds) reversal, rotations and an interleaving
            let orders: Vec<Vec<usize>> = if n <= 4 {
                permutations(n)
            } else {
                let id: Vec<usize> = (0..n).collect();
                let mut v = vec![id.iter().rev().copied().collect::<Vec<usize>>()];
                for k in [1usize, n / 2, 63.min(n - 1)] {
                    let mut r = id.clone();
                    r.rotate_left(k);
                    v.push(r);
                }
                v.push((0..n).map(|i| if i % 2 == 0 { i / 2 } else { n - 1 - i / 2 }).collect());
                v
            };
            for p in orders {
                let permuted: Vec<String> = p.iter().map(|i| case.params[*i].clone()).collect();
                let up = url(&case.path, &permuted);
                if !matches(&router, &rc, &up) {
                    fail("permutation", format!("rule from {u:?} does not match the same URL with its query permuted: {up:?}"));
                    break;
                }
            }
        }
        // (4) marketing parameters are ignored when so configured, and forwarded iff both flags
        if no_marketing_in_rule {
            let marketing: Vec<&str> = if case.marketing_set == 1 { vec!["utm_source=z", "ref=r", "hsCta=t"] } else { vec!["utm_source=z", "utm_medium=m%20x"] };
            let mut subsets = vec![vec![marketing[0]], vec![marketing[1], marketing[0]]];
            // a forwarded value that reads like a reference to a variable of the rule (it is data: forwarded as written)
            subsets.push(vec!["utm_source=@vhost"]);
            if marketing.len() > 2 {
                // a configured marketing parameter whose name has an upper-case letter
                subsets.push(vec![marketing[2]]);
                subsets.push(vec![marketing[2], marketing[1]]);
            }
            for subset in subsets {
                let mut with: Vec<String> = case.params.clone();
                for m in &subset {
                    with.insert(with.len() / 2, m.to_string());
                }
                let um = url(&case.path, &with);
                let req = request(&rc, &um);
                let matched = router.match_request(&req);
                if rc.ignore_marketing_query_params {
                    if matched.is_empty() {
                        fail("marketing-ignored", format!("rule from {u:?} does not match {um:?} although marketing parameters are ignored"));
                    } else {
                        for target in ["/t", "/t?x=1", "/t/@vhost", "/t/@vhost?x=@vhost"] {
                            let mut r2 = Router::<Rule>::from_config(rc.clone());
                            let mut rule_v = serde_json::to_value(rule_for(&case.path, &case.params, target)).unwrap();
                            if target.contains('@') {
                                // the source stays a literal URL; the target uses a variable computed from the request
                                rule_v["variables"] = json!([{"name": "vhost", "type": "request_host", "transformers": []}]);
                            }
                            r2.insert(serde_json::from_value::<Rule>(rule_v).expect("rule with variable"));
                            let target = target.replace("@vhost", "h.example");
                            let target = target.as_str();
                            let m2 = r2.match_request(&req);
                            let mut action = Action::from_routes_rule(m2, &req, None);
                            let headers = action.filter_headers(vec![], 0, false, None);
                            let location = headers.iter().find(|h| h.name.to_lowercase() == "location").map(|h| h.value.clone()).unwrap_or_default();
                            // expected: marketing parameters sorted by key, appended with ? or &
                            let mut mk: BTreeMap<String, String> = BTreeMap::new();
                            for m in &subset {
                                mk.insert(key_of(m).to_string(), m.to_string());
                            }
                            let joined: Vec<String> = mk.values().cloned().collect();
                            let want = if rc.pass_marketing_query_params_to_target {
                                format!("{target}{}{}", if target.contains('?') { "&" } else { "?" }, joined.join("&"))
                            } else {
                                target.to_string()
                            };
                            if location != want {
                                fail(
                                    "marketing-forwarding",
                                    format!("request {um:?}, target {target:?}, pass={}: Location is {location:?}, expected {want:?}", rc.pass_marketing_query_params_to_target),
                                );
                            }
                        }
                    }
                } else if !matched.is_empty() {
                    fail("marketing-not-ignored", format!("rule from {u:?} matches {um:?} although marketing parameters are not ignored"));
                }
            }
        }
        // (5) ASCII case
        if no_marketing_in_rule && !case.params.iter().any(|p| p.contains('%')) && !case.path.contains('%') {
            let us = swap_case(&u);
            // the swapped URL must really be a different URL (not a permutation of the same parameters)
            let mut sp: Vec<String> = case.params.iter().map(|p| swap_case(p)).collect();
            sp.sort();
            let mut op: Vec<String> = case.params.clone();
            op.sort();
            let really_differs = swap_case(&case.path) != case.path || sp != op;
            if us != u && (rc.ignore_path_and_query_case || really_differs) {
                let m = matches(&router, &rc, &us);
                if rc.ignore_path_and_query_case && !m {
                    fail("case-insensitive", format!("rule from {u:?} does not match {us:?} although case is ignored"));
                }
                if !rc.ignore_path_and_query_case && m {
                    fail("case-sensitive", format!("rule from {u:?} matches {us:?} although case is not ignored"));
                }
            }
        }
    }
    // (2) different URLs do not match (distinct decoded keys, no encoded delimiters in values — the statement's precondition)
    let encoded_delimiter = case.params.iter().any(|p| p.contains("%26") || p.contains("%3D"));
    if distinct_keys && !encoded_delimiter {
        let mut others: Vec<(String, &str)> = Vec::new();
        for i in 0..case.params.len() {
            if rc.ignore_marketing_query_params && is_marketing(&rc, &case.params[i]) {
                continue;
            }
            // a parameter with neither name nor value ("=") carries nothing: a URL without it is not held to be a different URL
            if case.params[i] == "=" {
                continue;
            }
            let mut dropped = case.params.clone();
            dropped.remove(i);
            others.push((url(&case.path, &dropped), "dropped-param"));
            let mut changed = case.params.clone();
            changed[i] = format!("{}=zz9", key_of(&case.params[i]));
            others.push((url(&case.path, &changed), "changed-value"));
        }
        let mut added = case.params.clone();
        added.push("zz=1".to_string());
        others.push((url(&case.path, &added), "added-param"));
        others.push((url(&format!("{}/zz", case.path), &case.params), "changed-path"));
        for (uo, how) in others {
            if matches(&router, &rc, &uo) {
                fail(&format!("distinct-url-matches({how})"), format!("rule from {u:?} matches the different URL {uo:?}"));
            }
        }
    }
    // (6) re-normalising a request changes nothing
    let q0 = request(&rc, &u);
    let q1 = Request::rebuild_with_config(&rc, &q0);
    let q2 = Request::rebuild_with_config(&rc, &q1);
    let j1 = serde_json::to_string(&q1).unwrap_or_default();
    let j2 = serde_json::to_string(&q2).unwrap_or_default();
    if j1 != j2 {
        fail("rebuild-not-idempotent", format!("rebuild(rebuild(q)) = {j2} differs from rebuild(q) = {j1}"));
    }
    let j0 = serde_json::to_string(&q0).unwrap_or_default();
    if j0 != j1 {
        fail("rebuild-changes-fresh-request", format!("rebuild(from_config(u)) = {j1} differs from from_config(u) = {j0}"));
    }
    out.sort();
    out.dedup_by(|a, b| a.0 == b.0);
    out
}

pub fn replay(case: &Value) -> Vec<String> {
    match serde_json::from_value::<Case>(case.clone()) {
        Ok(c) => check_case(&c).into_iter().map(|(s, _)| s).collect(),
        Err(_) => vec![],
    }
}

pub fn param_lists(max: usize) -> Vec<Vec<String>> {
    let mut out: Vec<Vec<String>> = vec![vec![]];
    let mut layer: Vec<Vec<String>> = vec![vec![]];
    for _ in 0..max {
        let mut next = Vec::new();
        for l in &layer {
            for p in PARAMS {
                // ordered lists without repeating the very same parameter text
                if l.iter().any(|x| x == p) {
                    continue;
                }
                let mut n = l.clone();
                n.push(p.to_string());
                next.push(n);
            }
        }
        out.extend(next.iter().cloned());
        layer = next;
    }
    out
}

pub fn run(tier: Tier) -> i32 {
    let ctx = Ctx::new("C09", tier, "exploration");
    // quick: all ordered lists of <=2 parameters plus the lists of 3 that start with one of the first four; thorough: all of <=3
    let mut lists = param_lists(2);
    for l in param_lists(3) {
        if l.len() == 3 && (tier == Tier::Thorough || PARAMS[..4].contains(&l[0].as_str())) {
            lists.push(l);
        }
    }
    let mut cases = Vec::new();
    for flags in 0..64u32 {
        for marketing_set in 0..2usize {
            for path in PATHS {
                for params in &lists {
                    cases.push(Case { flags, marketing_set, path: path.to_string(), params: params.clone(), unused_marker: false });
                    if params.len() <= 1 {
                        cases.push(Case { flags, marketing_set, path: path.to_string(), params: params.clone(), unused_marker: true });
                    }
                }
            }
        }
    }
    // many parameters (count thresholds): 70 / 130 / 300 distinct keys, with and without a marketing key among them
    for flags in [0u32, 4, 8, 12, 24, 28] {
        for n in [70usize, 130, 300] {
            let params: Vec<String> = (0..n).map(|i| format!("p{i:03}=v{i}")).collect();
            cases.push(Case { flags, marketing_set: 0, path: "/a".to_string(), params: params.clone(), unused_marker: false });
            let mut upper = params.clone();
            upper[n / 2] = "Q=Z".to_string();
            cases.push(Case { flags, marketing_set: 0, path: "/A".to_string(), params: upper, unused_marker: false });
        }
    }
    // a repeated key with two different values among 33 / 40 / 64 parameters (both sides keep the LAST value): every pair of
    // positions of the two occurrences (quick: every pair with a step of 3 on the second), on an ascending and on a scattered
    // base order of the other keys
    for n in [33usize, 40, 64] {
        for scattered in [false, true] {
            let stride = if n % 7 == 0 { 11 } else { 7 };
            let base: Vec<String> = (0..n - 2).map(|i| if scattered { (i * stride) % (n - 2) } else { i }).map(|i| format!("p{i:03}=v{i}")).collect();
            for i in 0..n - 1 {
                for j in ((i + 1)..n).step_by(tier.pick(3, 1)) {
                    let mut params = base.clone();
                    params.insert(i, "p020=first".to_string());
                    params.insert(j, "p020=last".to_string());
                    // p020 is now present three times when the base holds it too: drop the base's own
                    if let Some(k) = params.iter().position(|p| p == "p020=v20") {
                        params.remove(k);
                    }
                    for flags in [0u32, 4] {
                        cases.push(Case { flags, marketing_set: 0, path: "/a".to_string(), params: params.clone(), unused_marker: false });
                    }
                }
            }
        }
    }
    let distinct_norm = DistinctSet::new();
    let samples = Samples::new(6);
    par_range(ctx.threads, cases.len(), |i| {
        let c = &cases[i];
        ctx.eval(1);
        for (sig, what) in crate::common::run_case(|| serde_json::to_value(c).unwrap(), || check_case(c)) {
            ctx.report(Violation { signature: sig, what, case: serde_json::to_value(c).unwrap(), weight: (c.params.len() * 10 + c.path.len()) as u64 });
        }
        let rc = config(c.flags, c.marketing_set);
        let q = request(&rc, &url(&c.path, &c.params));
        let key = format!("{:?}{:?}", q.path_and_query_skipped.path_and_query_matching, q.path_and_query_skipped.skipped_query_params);
        if distinct_norm.insert_str(&key) && i % 17 == 0 {
            samples.offer(|| json!({"url": url(&c.path, &c.params), "flags": c.flags, "normalised": q.path_and_query_skipped.path_and_query_matching, "skipped": q.path_and_query_skipped.skipped_query_params}));
        }
    });
    let mut cov = Coverage::new();
    cov.set("distinct_nontrivial", json!(distinct_norm.len()))
        .set("rule", json!("evaluations = (configuration, URL) pairs, each checked on self-match, all query permutations, marketing additions and forwarding, case swap, non-matching neighbours (dropped/changed/added parameter, changed path) and rebuild idempotence; distinct_nontrivial = distinct (normalised matching form, skipped parameters) pairs produced"))
        .set("configurations", json!(128))
        .set("urls", json!(PATHS.len() * lists.len()))
        .set("samples", json!(samples.take()))
        .set("exhaustive", json!(true));
    cov.assume("values never contain encoded delimiters (%26, %3D) and relation (2) is asserted for distinct decoded keys only — the statement's precondition")
        .assume("marketing keys are compared case-sensitively by the implementation; the case relation is asserted on URLs without marketing parameters");
    finish(&ctx, cov, &replay)
}
