//! C16 — the HTML tokenizer is lossless and total on arbitrary bytes.
//!
//! Engine: exhaustive product enumeration (E4): (a) all byte strings up to a length over a 12-byte
//! markup alphabet, (b) all sequences of tokens over a 26-token alphabet (reaches the escaped /
//! double-escaped script states, CDATA, doctype, raw-text elements, non-UTF-8 bytes), (c) sweep (a)
//! inside every raw-text fragment context.

use crate::common::{finish, panic_message, par_range, Coverage, Ctx, DistinctSet, Samples, Tier, Violation};
use redirectionio::html::{TokenType, Tokenizer};
use serde_json::{json, Value};
use std::panic::{catch_unwind, AssertUnwindSafe};

pub const BYTES_ALPHABET: &[u8] = b"<>/!-=\"' as?";

pub const TOKENS: &[&[u8]] = &[
    b"<script>", b"</script>", b"<script ", b"</scr", b"<!--", b"-->", b"--!>", b"<style>", b"</style>", b"<textarea>", b"</textarea>",
    b"<title>", b"<plaintext>", b"<![CDATA[", b"]]>", b"<!DOCTYPE", b"<a b=\"", b"'>", b"<", b"/", b"-", b">", b"x", "é".as_bytes(), b"\xff",
    b"\x00",
    b"<a b=",
    "à".as_bytes(),
    "\u{a0}".as_bytes(),
    b"<script",
    b"<style",
    b" c='",
    // composite tokens: they put the tokenizer deep into the script sub-states at the cost of ONE item, so that the quick
    // bound (4 items) reaches "escaped dash then '<'", "double escaped dash then other", "raw end tag name followed by a letter"
    b"<script><!--",
    b"<script><!--<script>",
    b"</scriptx",
    // byte order mark, foreign-content elements
    b"\xef\xbb\xbf",
    b"<svg>",
    b"</svg>",
    // upper / mixed case names, a custom element whose name extends a raw-text element name
    b"<P Class=K>",
    b"</TITLE>",
    b"<title-bar>",
    // plain white space (a doctype / tag with nothing but blanks before '>'), a self-closing raw-text element
    b" ",
    b"<title/>",
];

pub const CONTEXTS: &[&str] = &["", "script", "style", "textarea", "title", "plaintext", "iframe", "noembed", "noframes", "noscript", "xmp", "div"];

fn kind_char(t: TokenType) -> char {
    match t {
        TokenType::NoneToken => 'N',
        TokenType::ErrorToken => 'E',
        TokenType::TextToken => 'T',
        TokenType::StartTagToken => 'S',
        TokenType::EndTagToken => 'C',
        TokenType::SelfClosingTagToken => 'X',
        TokenType::CommentToken => 'M',
        TokenType::DoctypeToken => 'D',
    }
}

/// Runs the tokenizer over one input; returns Err((kind, explanation)) on a violation, Ok(kind sequence) otherwise.
pub fn check_input(input: &[u8], context: &str) -> Result<String, (String, String)> {
    let valid_utf8 = std::str::from_utf8(input).is_ok();
    // a context written "!nocdata" / "!nocdata:<element>" is the same fragment context with Tokenizer::allow_cdata(false)
    let (no_cdata, context) = match context.strip_prefix("!nocdata") {
        Some(rest) => (true, rest.trim_start_matches(':')),
        None => (false, context),
    };
    let res = crate::common::guarded(|| -> Result<String, (String, String)> {
        let mut t = Tokenizer::new_fragment(input.to_vec(), context.to_string());
        if no_cdata {
            t.allow_cdata(false);
        }
        let mut rebuilt: Vec<u8> = Vec::with_capacity(input.len());
        let mut kinds = String::new();
        let mut n = 0usize;
        loop {
            let tt = match t.next() {
                Ok(tt) => tt,
                Err(e) => {
                    // tokenisation is total: next() itself never fails, whatever the bytes (only the
                    // string accessors may, on invalid UTF-8)
                    let _ = valid_utf8;
                    return Err(("next-returned-error".into(), format!("next() returned Err({e})")));
                }
            };
            n += 1;
            kinds.push(kind_char(tt));
            let raw = t.raw();
            rebuilt.extend_from_slice(&raw);
            if tt == TokenType::ErrorToken {
                rebuilt.extend(t.buffered());
                break;
            }
            // the invariant holds after EVERY token, not only at the end: spans so far + unread remainder == input; asking for
            // the remainder (twice) is an observation, it must not change anything
            {
                let rest = t.buffered();
                let rest2 = t.buffered();
                if rest != rest2 || rebuilt.len() + rest.len() != input.len() || input[rebuilt.len()..] != rest[..] {
                    return Err(("not-lossless".into(), format!("after token #{n}: spans so far ({} bytes) + buffered() ({} bytes, second call {} bytes) do not reproduce the input ({} bytes)", rebuilt.len(), rest.len(), rest2.len(), input.len())));
                }
            }
            if raw.is_empty() {
                return Err(("empty-token".into(), format!("token #{n} of kind {tt:?} has an empty raw span")));
            }
            if n > input.len() + 1 {
                return Err(("too-many-tokens".into(), format!("more than |input|+1 = {} tokens", input.len() + 1)));
            }
            if valid_utf8 {
                if let Err(e) = t.raw_as_string() {
                    return Err(("accessor-error".into(), format!("raw_as_string() failed on valid UTF-8 input: {e}")));
                }
                match tt {
                    TokenType::StartTagToken | TokenType::EndTagToken | TokenType::SelfClosingTagToken => {
                        let (name, mut more) = match t.tag_name() {
                            Ok(x) => x,
                            Err(e) => return Err(("accessor-error".into(), format!("tag_name() failed on valid UTF-8 input: {e}"))),
                        };
                        let _ = name;
                        let mut guard = 0;
                        while more {
                            match t.tag_attr() {
                                Ok((_, _, m)) => more = m,
                                Err(e) => return Err(("accessor-error".into(), format!("tag_attr() failed on valid UTF-8 input: {e}"))),
                            }
                            guard += 1;
                            if guard > input.len() + 1 {
                                return Err(("attr-loop".into(), "tag_attr() reports more attributes than input bytes".into()));
                            }
                        }
                    }
                    _ => {
                        if let Err(e) = t.text() {
                            return Err(("accessor-error".into(), format!("text() failed on valid UTF-8 input: {e}")));
                        }
                    }
                }
                if let Err(e) = t.token() {
                    return Err(("accessor-error".into(), format!("token() failed on valid UTF-8 input: {e}")));
                }
                // reading a token through its accessors is an observation too: its raw span is what it was
                if t.raw() != raw {
                    return Err(("not-lossless".into(), format!("raw() of token #{n} changed after its accessors were called: {:?} -> {:?}", String::from_utf8_lossy(&raw), String::from_utf8_lossy(&t.raw()))));
                }
            } else {
                // accessors must not panic on invalid UTF-8 either (Err is fine)
                let _ = t.raw_as_string();
                let _ = t.token();
            }
        }
        if rebuilt != input {
            return Err((
                "not-lossless".into(),
                format!(
                    "raw spans + remainder give {:?} for input {:?}",
                    String::from_utf8_lossy(&rebuilt),
                    String::from_utf8_lossy(input)
                ),
            ));
        }
        Ok(kinds)
    });
    match res {
        Ok(r) => r,
        Err((loc, msg)) => Err(("panic".into(), format!("tokenizer panicked at {loc}: {msg}"))),
    }
}

// ------------------------------------------------------------------------------------------------
// termination watchdog: an input on which next() loops forever cannot be interrupted from inside the
// thread, so every worker publishes the input it is working on and a watchdog thread reports the first
// one that has been running for more than WATCHDOG_S seconds (then the process exits: VIOLATION).

const WATCHDOG_S: u64 = 10;

struct Slot {
    current: std::sync::Mutex<Option<(std::time::Instant, Vec<u8>, String, String)>>,
}
static REGISTRY: std::sync::Mutex<Vec<std::sync::Arc<Slot>>> = std::sync::Mutex::new(Vec::new());
thread_local! {
    static MY_SLOT: std::sync::Arc<Slot> = {
        let s = std::sync::Arc::new(Slot { current: std::sync::Mutex::new(None) });
        REGISTRY.lock().unwrap().push(s.clone());
        s
    };
}

fn check_input_watched(input: &[u8], context: &str, sweep: &str) -> Result<String, (String, String)> {
    MY_SLOT.with(|s| *s.current.lock().unwrap() = Some((std::time::Instant::now(), input.to_vec(), context.to_string(), sweep.to_string())));
    let r = check_input(input, context);
    MY_SLOT.with(|s| *s.current.lock().unwrap() = None);
    r
}

fn signature_of(kind: &str, sweep: &str, context: &str) -> String {
    format!("{kind}:sweep={sweep}:context={}", if context.is_empty() { "document" } else { context })
}

fn start_watchdog(prop: &'static str, tier: Tier) {
    std::thread::spawn(move || loop {
        std::thread::sleep(std::time::Duration::from_secs(1));
        let slots: Vec<std::sync::Arc<Slot>> = REGISTRY.lock().unwrap().clone();
        for s in slots {
            let stuck = {
                let g = s.current.lock().unwrap();
                match &*g {
                    Some((t, input, context, sweep)) if t.elapsed().as_secs() >= WATCHDOG_S => Some((input.clone(), context.clone(), sweep.clone())),
                    _ => None,
                }
            };
            if let Some((input, context, sweep)) = stuck {
                let sig = signature_of("does-not-terminate", &sweep, &context);
                let known = crate::common::load_known_findings().iter().any(|k| k.property == prop && k.status == "open" && k.signature == sig);
                let dir = crate::common::verif_root().join("replays");
                let _ = std::fs::create_dir_all(&dir);
                let path = dir.join(format!("{prop}-nonterminating-{:016x}.json", crate::common::fp128(&input) as u64));
                let doc = json!({"property": prop, "signature": sig, "what": format!("tokenising {:?} (context {:?}) did not finish within {WATCHDOG_S}s", String::from_utf8_lossy(&input), context),
                                 "case": {"input": input, "context": context, "sweep": sweep}});
                let _ = std::fs::write(&path, serde_json::to_string_pretty(&doc).unwrap());
                let evidence = json!({"property_id": prop, "tier": tier.name(), "seed": 0, "level": "exploration", "wall_s": 0.0, "violations": 1,
                    "coverage": {"evaluations": 1, "distinct_nontrivial": 2, "rule": "run aborted by the termination watchdog", "samples": [String::from_utf8_lossy(&input)], "exhaustive": false}});
                let _ = std::fs::write(crate::common::verif_root().join("evidence").join(format!("{prop}.json")), serde_json::to_string_pretty(&evidence).unwrap());
                if known {
                    println!("KNOWN-FINDING: property={prop} {sig}");
                    std::process::exit(0);
                }
                println!("VIOLATION property={prop} replay={}", path.display());
                println!("  signature: {sig}");
                println!("  what: tokenising {:?} (context {:?}) did not finish within {WATCHDOG_S}s", String::from_utf8_lossy(&input), context);
                std::process::exit(1);
            }
        }
    });
}

/// run one input in a child process with a time limit (used by replay: a non-terminating input must not hang it)
pub fn one(hex: &str, context: &str) -> i32 {
    let input: Vec<u8> = (0..hex.len() / 2).filter_map(|i| u8::from_str_radix(&hex[2 * i..2 * i + 2], 16).ok()).collect();
    match check_input(&input, context) {
        Ok(_) => println!("OK"),
        Err((kind, _)) => println!("ERR {kind}"),
    }
    0
}

fn report(ctx: &Ctx, sweep: &str, context: &str, input: &[u8], kind: String, what: String) {
    ctx.report(Violation {
        signature: signature_of(&kind, sweep, context),
        what: format!("{what} (input {:?}, context {:?})", String::from_utf8_lossy(input), context),
        case: json!({"input": input, "context": context, "sweep": sweep}),
        weight: input.len() as u64,
    });
}

/// enumerate all strings over `alphabet` (items are byte strings) with exactly `len` items whose first
/// `prefix.len()` items are `prefix`
fn sweep_rec(ctx: &Ctx, sweep: &str, context: &str, alphabet: &[&[u8]], buf: &mut Vec<u8>, remaining: usize, kinds: &DistinctSet, samples: &Samples) {
    // check the current string, then extend
    ctx.eval(1);
    match check_input_watched(buf, context, sweep) {
        Ok(k) => {
            if kinds.insert_str(&format!("{context}:{k}")) {
                samples.offer(|| json!({"sweep": sweep, "context": context, "input": String::from_utf8_lossy(buf), "token_kinds": k}));
            }
        }
        Err((kind, what)) => report(ctx, sweep, context, buf, kind, what),
    }
    if remaining == 0 {
        return;
    }
    for item in alphabet {
        let l = buf.len();
        buf.extend_from_slice(item);
        sweep_rec(ctx, sweep, context, alphabet, buf, remaining - 1, kinds, samples);
        buf.truncate(l);
    }
}

fn sweep(ctx: &Ctx, name: &str, context: &str, alphabet: &[&[u8]], max_len: usize, kinds: &DistinctSet, samples: &Samples) {
    // shard by the first two items
    let n = alphabet.len();
    // the empty string and the 1-item strings
    ctx.eval(1);
    if let Err((kind, what)) = check_input(b"", context) {
        report(ctx, name, context, b"", kind, what);
    }
    if max_len == 0 {
        return;
    }
    if max_len == 1 {
        for a in alphabet {
            let mut buf = a.to_vec();
            sweep_rec(ctx, name, context, alphabet, &mut buf, 0, kinds, samples);
        }
        return;
    }
    for a in alphabet {
        ctx.eval(1);
        match check_input_watched(a, context, name) {
            Ok(k) => {
                kinds.insert_str(&format!("{context}:{k}"));
            }
            Err((kind, what)) => report(ctx, name, context, a, kind, what),
        }
    }
    par_range(ctx.threads, n * n, |i| {
        let mut buf = alphabet[i / n].to_vec();
        buf.extend_from_slice(alphabet[i % n]);
        sweep_rec(ctx, name, context, alphabet, &mut buf, max_len - 2, kinds, samples);
    });
}

/// (d) run lengths: every construct of the grammar with ONE run of `n` equal items inside it, for every n up to
/// `max_n` — the dimension the fixed-depth sweeps cannot reach (fixed-size scratch buffers, look-behind windows)
pub const RUN_FILLERS: &[&[u8]] = &[b"a", b"s", b"p", b"x", b"i", b"n", b"t", b"A", b"S", b"-", b" ", b"<", b"\"", b"=", "é".as_bytes(), b"\xff", b"]", b"!"];
pub const RUN_TEMPLATES: &[(&[u8], &[u8])] = &[
    (b"<", b">"),
    (b"</", b">"),
    (b"<", b"/>"),
    (b"<", b""),
    (b"<", b" b=c>"),
    (b"<a ", b"=v>"),
    (b"<a ", b"/>"),
    (b"<a b=", b">"),
    (b"<a b=\"", b"\">"),
    (b"<a b='", b"'>"),
    (b"<a b=\"", b""),
    (b"<!--", b"-->"),
    (b"<!--", b""),
    (b"<!", b">"),
    (b"<!DOCTYPE ", b">"),
    (b"<![CDATA[", b"]]>"),
    (b"<script>", b"</script>"),
    (b"<script><!--<script>", b"</script>--></script>"),
    (b"<title>", b"</title>"),
    (b"<title>", b"</titl"),
    (b"<textarea>", b"</textarea >"),
    (b"", b""),
    (b"x", b"<b>"),
];

fn length_sweep(ctx: &Ctx, max_n: usize, kinds: &DistinctSet, samples: &Samples) {
    let work: Vec<(usize, usize)> = (0..RUN_TEMPLATES.len()).flat_map(|t| (0..RUN_FILLERS.len()).map(move |f| (t, f))).collect();
    par_range(ctx.threads, work.len(), |i| {
        let (t, f) = work[i];
        let (pre, post) = RUN_TEMPLATES[t];
        for n in 1..=max_n {
            let mut buf = pre.to_vec();
            for _ in 0..n {
                buf.extend_from_slice(RUN_FILLERS[f]);
            }
            buf.extend_from_slice(post);
            for context in ["", "title"] {
                ctx.eval(1);
                match check_input_watched(&buf, context, "run-lengths") {
                    Ok(k) => {
                        if kinds.insert_str(&format!("{context}:{k}")) {
                            samples.offer(|| json!({"sweep": "run-lengths", "context": context, "input": String::from_utf8_lossy(&buf), "token_kinds": k}));
                        }
                    }
                    Err((kind, what)) => report(ctx, "run-lengths", context, &buf, kind, what),
                }
            }
        }
    });
}

pub fn replay(case: &Value) -> Vec<String> {
    let input: Vec<u8> = match serde_json::from_value(case["input"].clone()) {
        Ok(v) => v,
        Err(_) => return vec![],
    };
    let context = case["context"].as_str().unwrap_or("");
    let sweep = case["sweep"].as_str().unwrap_or("");
    // in a child process with a time limit: the input may be one on which the tokenizer never returns
    let hex: String = input.iter().map(|b| format!("{b:02x}")).collect();
    let exe = match std::env::current_exe() {
        Ok(e) => e,
        Err(_) => return vec![],
    };
    let mc = exe.parent().map(|p| p.join("mc")).unwrap_or(exe);
    let mut child = match std::process::Command::new(mc).arg("c16-one").arg(&hex).arg(context).stdout(std::process::Stdio::piped()).stderr(std::process::Stdio::null()).spawn() {
        Ok(c) => c,
        Err(_) => return vec![],
    };
    let start = std::time::Instant::now();
    loop {
        match child.try_wait() {
            Ok(Some(status)) => {
                let mut out = String::new();
                if let Some(mut so) = child.stdout.take() {
                    use std::io::Read;
                    let _ = so.read_to_string(&mut out);
                }
                if !status.success() {
                    return vec![signature_of("process-died", sweep, context)];
                }
                return match out.trim().strip_prefix("ERR ") {
                    Some(kind) => vec![signature_of(kind, sweep, context)],
                    None => vec![],
                };
            }
            Ok(None) => {
                if start.elapsed().as_secs() >= WATCHDOG_S {
                    let _ = child.kill();
                    let _ = child.wait();
                    return vec![signature_of("does-not-terminate", sweep, context)];
                }
                std::thread::sleep(std::time::Duration::from_millis(20));
            }
            Err(_) => return vec![],
        }
    }
}

pub fn run(tier: Tier) -> i32 {
    let ctx = Ctx::new("C16", tier, "exploration");
    start_watchdog("C16", tier);
    let kinds = DistinctSet::new();
    let samples = Samples::new(8);
    let bytes_alpha: Vec<Vec<u8>> = BYTES_ALPHABET.iter().map(|b| vec![*b]).collect();
    let bytes_alpha_ref: Vec<&[u8]> = bytes_alpha.iter().map(|v| v.as_slice()).collect();
    let la = tier.pick(7, 8);
    let lb = tier.pick(4, 5);
    let lc = tier.pick(5, 6);
    // (a)
    sweep(&ctx, "bytes", "", &bytes_alpha_ref, la, &kinds, &samples);
    let after_a = ctx.evaluations.load(std::sync::atomic::Ordering::Relaxed);
    // (b)
    sweep(&ctx, "tokens", "", TOKENS, lb, &kinds, &samples);
    let after_b = ctx.evaluations.load(std::sync::atomic::Ordering::Relaxed);
    // (c)
    for context in CONTEXTS.iter().skip(1) {
        sweep(&ctx, "bytes-in-context", context, &bytes_alpha_ref, lc, &kinds, &samples);
        sweep(&ctx, "tokens-in-context", context, TOKENS, tier.pick(2, 3), &kinds, &samples);
    }
    // the other tokenizer mode: allow_cdata(false) (a CDATA section is then a bogus comment), document and two fragment contexts
    for context in ["!nocdata", "!nocdata:title", "!nocdata:script"] {
        sweep(&ctx, "tokens-no-cdata", context, TOKENS, tier.pick(3, 4), &kinds, &samples);
        sweep(&ctx, "bytes-no-cdata", context, &bytes_alpha_ref, tier.pick(5, 6), &kinds, &samples);
    }
    let after_c = ctx.evaluations.load(std::sync::atomic::Ordering::Relaxed);
    // (d)
    let ld = tier.pick(80, 300);
    length_sweep(&ctx, ld, &kinds, &samples);
    let total = ctx.evaluations.load(std::sync::atomic::Ordering::Relaxed);
    let mut cov = Coverage::new();
    cov.set("d_run_lengths", json!({"templates": RUN_TEMPLATES.len(), "fillers": RUN_FILLERS.len(), "max_run": ld, "contexts": ["document", "title"], "inputs": total - after_c}));
    cov.set("evaluations", json!(total))
        .set("distinct_nontrivial", json!(kinds.len()))
        .set("rule", json!("every string is tokenised to the end; distinct_nontrivial = number of distinct (context, token-kind sequence) pairs observed"))
        .set("samples", json!(samples.take()))
        .set("exhaustive", json!(true))
        .set("sweeps", json!({
            "a_all_byte_strings": {"alphabet": String::from_utf8_lossy(BYTES_ALPHABET), "max_len": la, "inputs": after_a},
            "b_all_token_sequences": {"tokens": TOKENS.len(), "max_tokens": lb, "inputs": after_b - after_a},
            "c_in_fragment_contexts": {"contexts": &CONTEXTS[1..], "max_len_bytes": lc, "inputs": after_c - after_b},
        }));
    cov.assume("inputs outside the alphabets / longer than the bounds are not covered")
        .assume("release profile (the shipped one): per-byte mutual recursion in the script states is compiled to loops");
    finish(&ctx, cov, &replay)
}
