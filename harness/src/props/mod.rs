pub mod c08;

use crate::common::Tier;
use serde_json::Value;

pub fn run(prop: &str, tier: Tier) -> i32 {
    crate::common::quiet_panics();
    match prop {
        "C08" => c08::run(tier),
        _ => {
            eprintln!("unknown property {prop}");
            2
        }
    }
}

pub fn replay(prop: &str, case: &Value) -> Vec<String> {
    crate::common::quiet_panics();
    match prop {
        "C08" => c08::replay("C08", case),
        _ => vec![],
    }
}
