pub mod big;
pub mod many;
pub mod c01;
pub mod c02;
pub mod c03;
pub mod c04;
pub mod c05;
pub mod c06;
pub mod c07;
pub mod c08;
pub mod c09;
pub mod c10;
pub mod c11;
pub mod c12;
pub mod c13;
pub mod c14;
pub mod c15;
pub mod c16;
pub mod c17;
pub mod c19;

use crate::common::Tier;
use serde_json::Value;

/// manifest level of each property (also used by the termination watchdog's evidence)
pub fn level_of(prop: &str) -> &'static str {
    match prop {
        "C01" | "C02" | "C03" | "C04" | "C08" | "C12" | "C17" | "C18" => "model_checking",
        "C07" => "fault_enumeration",
        _ => "exploration",
    }
}

pub fn static_prop(prop: &str) -> &'static str {
    ["C01", "C02", "C03", "C04", "C05", "C06", "C07", "C08", "C09", "C10", "C11", "C12", "C13", "C14", "C15", "C16", "C17", "C18", "C19"].into_iter().find(|p| *p == prop).unwrap_or("C00")
}

pub fn run(prop: &str, tier: Tier) -> i32 {
    crate::common::quiet_panics();
    if prop != "C07" && prop != "C16" {
        crate::common::start_watchdog(static_prop(prop), tier, level_of(prop), true);
    }
    match prop {
        "C01" => c01::run(tier),
        "C02" => c02::run(tier),
        "C03" => c03::run(tier),
        "C04" => c04::run(tier),
        "C05" => c05::run(tier),
        "C06" => c06::run(tier),
        "C07" => c07::run(tier),
        "C08" => c08::run(tier),
        "C09" => c09::run(tier),
        "C10" => c10::run(tier),
        "C11" => c11::run(tier),
        "C12" => c12::run(tier),
        "C13" => c13::run(tier),
        "C14" => c14::run(tier),
        "C15" => c15::run(tier),
        "C16" => c16::run(tier),
        "C17" => c17::run(tier),
        "C19" => c19::run(tier),
        _ => {
            eprintln!("unknown property {prop}");
            2
        }
    }
}

pub fn replay(prop: &str, case: &Value) -> Vec<String> {
    crate::common::quiet_panics();
    // a replayed case may be one on which the library never returns
    let run = |f: &dyn Fn() -> Vec<String>| -> Vec<String> { crate::common::watched(|| case.clone(), f) };
    run(&|| replay_inner(prop, case))
}

fn replay_inner(prop: &str, case: &Value) -> Vec<String> {
    match prop {
        "C01" => c01::replay(case),
        "C02" => c02::replay(case),
        "C03" => c03::replay(case),
        "C04" => c04::replay(case),
        "C05" => c05::replay(case),
        "C06" => c06::replay(case),
        "C07" => c07::replay(case),
        "C08" => c08::replay("C08", case),
        "C09" => c09::replay(case),
        "C10" => c10::replay(case),
        "C11" => c11::replay(case),
        "C12" => c12::replay(case),
        "C13" => c13::replay(case),
        "C14" => c14::replay(case),
        "C15" => c15::replay(case),
        "C16" => c16::replay(case),
        "C17" => c17::replay(case),
        "C19" => c19::replay(case),
        _ => vec![],
    }
}
