pub mod c03;
pub mod c04;
pub mod c08;
pub mod c13;
pub mod c16;

use crate::common::Tier;
use serde_json::Value;

pub fn run(prop: &str, tier: Tier) -> i32 {
    crate::common::quiet_panics();
    match prop {
        "C03" => c03::run(tier),
        "C04" => c04::run(tier),
        "C08" => c08::run(tier),
        "C13" => c13::run(tier),
        "C16" => c16::run(tier),
        _ => {
            eprintln!("unknown property {prop}");
            2
        }
    }
}

pub fn replay(prop: &str, case: &Value) -> Vec<String> {
    crate::common::quiet_panics();
    match prop {
        "C03" => c03::replay(case),
        "C04" => c04::replay(case),
        "C08" => c08::replay("C08", case),
        "C13" => c13::replay(case),
        "C16" => c16::replay(case),
        _ => vec![],
    }
}
