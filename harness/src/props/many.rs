//! Count thresholds (shared by C01 and C17): routers holding MANY rules that differ in ONE trigger dimension only
//! (60 / 130 static hosts, dynamic hosts, static paths, dynamic paths, ip ranges, methods, header values, date ranges).
//! The state explorers work with 1-4 live rules; a cap, a fan-out limit or an "N-th element" shortcut in one matcher layer
//! only shows when that layer holds more entries than the limit. For every rule i the request that satisfies rule i alone is
//! matched (C01: exactly {i}, judged by the flat predicate) and traced (C17: traced rules == matched rules, final priority,
//! last action-trace step == live action), on a cold router and after cache(None).

use crate::common::{Ctx, Violation};
use crate::universe::{sat_dim, Cfg, HeaderCond, Probe, RuleSpec};

/// every trigger dimension satisfied (None = the statement leaves one of them open)
fn sat(r: &RuleSpec, p: &Probe, cfg: &Cfg) -> Option<bool> {
    let mut unknown = false;
    for d in 0..7 {
        match sat_dim(d, r, p, cfg) {
            Some(false) => return Some(false),
            None => unknown = true,
            _ => {}
        }
    }
    if unknown {
        None
    } else {
        Some(true)
    }
}
use redirectionio::action::{Action, TraceAction};
use redirectionio::api::Rule;
use redirectionio::router::{Router, Trace};
use serde::{Deserialize, Serialize};
use serde_json::{json, Value};
use std::collections::BTreeSet;

pub const DIMS: [&str; 8] = ["static-host", "dynamic-host", "static-path", "dynamic-path", "ip-range", "method", "header-value", "date-range"];

#[derive(Clone, Debug, Serialize, Deserialize)]
pub struct Case {
    pub dim: usize,
    pub n: usize,
    pub cfg_bits: u32,
    pub cached: bool,
}

fn base_probe() -> Probe {
    Probe { scheme: Some("https".into()), host: Some("base.example".into()), ip: Some("8.8.8.8".into()), method: Some("GET".into()), headers: vec![], at: Some("2024-03-05T10:00:00Z".into()), path: "/a".into() }
}

/// rule i of the family and the request that satisfies it (and no other rule of the family)
pub fn member(dim: usize, i: usize) -> (RuleSpec, Probe) {
    let mut r = RuleSpec::base(&format!("m{i:03}"));
    r.rank = (i + 1) as u16;
    r.label = format!("{} #{i}", DIMS[dim]);
    r.extra = Some(json!({"status_code": 301, "target": format!("/t{i}")}));
    let mut p = base_probe();
    match dim {
        0 => {
            r.host = Some(format!("h{i}.example"));
            p.host = r.host.clone();
        }
        1 => {
            r.host = Some(format!("@h.d{i}.example"));
            r.markers.push(("h".into(), "(cat|dog)".into()));
            p.host = Some(format!("cat.d{i}.example"));
        }
        2 => {
            r.path = format!("/many/{i}");
            p.path = r.path.clone();
        }
        3 => {
            r.path = format!("/d{i}/@m");
            r.markers.push(("m".into(), "[a-z]+".into()));
            p.path = format!("/d{i}/x");
        }
        4 => {
            r.ips = Some(vec![(true, format!("10.{i}.0.0/16"))]);
            p.ip = Some(format!("10.{i}.0.1"));
        }
        5 => {
            r.methods = Some(vec![format!("M{i}")]);
            p.method = Some(format!("M{i}"));
        }
        6 => {
            r.headers = vec![HeaderCond { kind: "is_equals".into(), name: "X".into(), value: Some(format!("v{i}")) }];
            p.headers = vec![("X".into(), format!("v{i}"))];
        }
        _ => {
            // one hour per rule, starting 2024-03-05T00:00 (i < 24 * 6)
            let day = 5 + i / 24;
            let hour = i % 24;
            let start = format!("2024-03-{day:02}T{hour:02}:00:00Z");
            let end = if hour == 23 { format!("2024-03-{:02}T00:00:00Z", day + 1) } else { format!("2024-03-{day:02}T{:02}:00:00Z", hour + 1) };
            r.datetime = Some(vec![(Some(start.clone()), Some(end))]);
            p.at = Some(format!("2024-03-{day:02}T{hour:02}:30:00Z"));
        }
    }
    (r, p)
}

pub fn check_case(prop: &str, case: &Case) -> Vec<(String, String)> {
    let cfg = Cfg::from_bits(case.cfg_bits);
    let rc = cfg.to_router_config();
    let members: Vec<(RuleSpec, Probe)> = (0..case.n).map(|i| member(case.dim, i)).collect();
    let mut router = Router::<Rule>::from_config(rc.clone());
    for (r, _) in &members {
        router.insert(r.to_rule());
    }
    if case.cached {
        router.cache(None);
    }
    let mut out: Vec<(String, String)> = Vec::new();
    let name = format!("many-rules:{}:n={}{}", DIMS[case.dim], case.n, if case.cached { ":cached" } else { "" });
    let mut probes: Vec<Probe> = members.iter().map(|(_, p)| p.clone()).collect();
    probes.push(base_probe());
    for (pi, p) in probes.iter().enumerate() {
        crate::common::beat();
        let req = p.to_request(&rc);
        let mut got: Vec<String> = router.match_request(&req).iter().map(|r| r.id().to_string()).collect();
        got.sort();
        if prop == "C01" {
            // the flat predicate over the whole family (no any-host subtlety: either every rule has a host or none has)
            let mut want: Vec<String> = members.iter().filter(|(r, _)| sat(r, p, &cfg) == Some(true)).map(|(r, _)| r.id.clone()).collect();
            if case.dim <= 1 && !cfg.always_match_any_host {
                // all rules are host rules: nothing to fall back to
            }
            want.sort();
            if got != want {
                out.push((format!("{name}:match-differs-from-predicate"), format!("request #{pi} {p:?}: matched {got:?}, the rules whose every trigger is satisfied are {want:?}")));
                break;
            }
        } else {
            let traces = router.trace_request(&req);
            let traced: BTreeSet<String> = Trace::<Rule>::get_routes_from_traces(&traces).iter().map(|r| r.id().to_string()).collect();
            let rebuilt = router.rebuild_request(&req);
            let matched_routes = router.match_request(&rebuilt);
            let matched: BTreeSet<String> = matched_routes.iter().map(|r| r.id().to_string()).collect();
            if traced != matched {
                out.push((format!("{name}:trace-differs-from-match"), format!("request #{pi} {p:?}: trace lists {traced:?}, matching gives {matched:?}")));
                break;
            }
            let rt = serde_json::to_value(router.get_trace(&req)).unwrap_or(Value::Null);
            let final_prio = rt.get("final_route").and_then(|f| f.get("priority")).and_then(|x| x.as_i64());
            let direct_prio = router.get_route(&rebuilt).map(|r| r.priority());
            if final_prio != direct_prio {
                out.push((format!("{name}:trace-final-priority"), format!("request #{pi} {p:?}: traced final priority {final_prio:?}, direct lookup {direct_prio:?}")));
                break;
            }
            let steps = TraceAction::from_trace_rules(&traces, &rebuilt);
            let live = serde_json::to_value(Action::from_routes_rule(matched_routes, &rebuilt, None)).unwrap_or(Value::Null);
            let last = match steps.last() {
                None => serde_json::to_value(Action::default()).unwrap(),
                Some(step) => serde_json::to_value(step).ok().and_then(|v| v.get("action").cloned()).unwrap_or(Value::Null),
            };
            if live.get("status_code_update") != last.get("status_code_update") || live.get("header_filters") != last.get("header_filters") {
                out.push((format!("{name}:trace-last-action"), format!("request #{pi} {p:?}: last action-trace step {last} != live action {live}")));
                break;
            }
        }
    }
    out
}

pub fn cases(thorough: bool) -> Vec<Case> {
    let mut v = Vec::new();
    for dim in 0..DIMS.len() {
        for n in if thorough { vec![60usize, 130, 140] } else { vec![60usize, 130] } {
            for cfg_bits in if thorough { vec![0u32, 8, 15] } else { vec![0u32, 15] } {
                for cached in [false, true] {
                    if cached && !(dim == 1 || dim == 3) && !thorough {
                        continue;
                    }
                    v.push(Case { dim, n, cfg_bits, cached });
                }
            }
        }
    }
    v
}

/// returns (cases, probes judged)
pub fn run(ctx: &Ctx, prop: &'static str, thorough: bool) -> (u64, u64) {
    let cs = cases(thorough);
    let probes = std::sync::atomic::AtomicU64::new(0);
    crate::common::par_range(ctx.threads, cs.len(), |i| {
        let c = &cs[i];
        let found = crate::common::run_case(|| json!({"many": c, "watch_label": "many-rules"}), || check_case(prop, c));
        probes.fetch_add(c.n as u64 + 1, std::sync::atomic::Ordering::Relaxed);
        for (sig, what) in found {
            ctx.report(Violation { signature: sig, what, case: json!({"many": c}), weight: c.n as u64 });
        }
    });
    (cs.len() as u64, probes.load(std::sync::atomic::Ordering::Relaxed))
}

pub fn replay(prop: &str, case: &Value) -> Option<Vec<String>> {
    let c: Case = serde_json::from_value(case.get("many")?.clone()).ok()?;
    Some(match crate::common::guarded(|| check_case(prop, &c)) {
        Ok(v) => v.into_iter().map(|(s, _)| s).collect(),
        Err((loc, _)) => vec![format!("panic:{loc}")],
    })
}
