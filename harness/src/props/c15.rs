//! C15 — HTML filters edit the targeted element as specified on well-formed documents.
//!
//! Engine E4: documents are generated as trees (so the reference knows the byte span of every start and
//! end tag) crossed with filter lists; oracle: reference edit (splice at the known spans).

use crate::common::{finish, par_range, Coverage, Ctx, DistinctSet, Samples, Tier, Violation};
use crate::engines::chunk::{single_chunk, FilterSpec};
use serde::{Deserialize, Serialize};
use serde_json::{json, Value};

pub const FILLERS: &[&str] = &[
    "text",
    "a &amp; b",
    "<!-- c <b> -->",
    "<p>t</p>",
    "<p class=\"k\">t</p>",
    "<span title='q'>s</span>",
    "<br>",
    "<img a=1/>",
    "<EM>t</EM>",
    "<script>x<y</script>",
    // self-closing syntax on elements that are not void (inline SVG, custom elements): one token, no end tag follows
    "<svg:path d=\"M0 0\"/>",
    "<x-foo/>",
    // the element the selector p.k looks for, written in upper case (tag names are case-insensitive, the class value is not)
    "<P CLASS=\"k\">T</P>",
    // raw-text elements whose end tag has white space after the name, and the legacy script guard that writes an inner
    // script (escaped / double-escaped script data): what follows them must still be seen as markup
    "<title>t</title\n>",
    "<textarea>x</textarea >",
    "<script><!--\ndocument.write('<script src=\"a.js\"><\\/script>');\n//--></script>",
    // the same guard with a REAL inner end tag (double-escaped script data: the inner </script> does not close the element)
    "<script><!-- document.write('<script src=x></script>'); //--></script>",
    // custom elements whose names extend the name of a raw-text element
    "<title-bar>t</title-bar>",
    "<style-guide>s</style-guide><iframe-resizer></iframe-resizer>",
];
const P_K: usize = 4;

pub const V1: &str = "@@A1@@";
pub const V2: &str = "<b>@@B2@@</b>";

#[derive(Clone, Debug, Serialize, Deserialize, PartialEq, Eq)]
pub enum TargetKind {
    Normal,
    /// void element (meta): only for replace
    Void,
    /// self-closing syntax <div/>: only for replace
    SelfClosing,
}

#[derive(Clone, Debug, Serialize, Deserialize)]
pub struct Doc {
    pub path: Vec<String>,
    /// fillers before / after the path child, per ancestor level (len = path.len()-1)
    pub pre: Vec<Vec<usize>>,
    pub post: Vec<Vec<usize>>,
    /// inner content (fillers) of each sibling occurrence of the target
    pub targets: Vec<Vec<usize>>,
    /// filler between sibling occurrences
    pub separator: Option<usize>,
    pub kind: TargetKind,
    pub upper: bool,
    pub attrs: bool,
}

fn fill(ix: &[usize]) -> String {
    ix.iter().map(|i| FILLERS[*i]).collect::<Vec<_>>().join("")
}

impl Doc {
    fn open(&self, tag: &str, level: usize) -> String {
        let t = if self.upper { tag.to_uppercase() } else { tag.to_string() };
        if self.attrs {
            match level % 3 {
                0 => format!("<{t} lang=\"en\" data-if=\"a>b\" data-q='x>y'>"),
                1 => format!("<{t} id='i{level}' data-x=1>"),
                _ => format!("<{t} class=\"c d\" hidden>"),
            }
        } else {
            format!("<{t}>")
        }
    }
    fn close(&self, tag: &str) -> String {
        let t = if self.upper { tag.to_uppercase() } else { tag.to_string() };
        format!("</{t}>")
    }
    /// (prefix, occurrences [(open, inner, close)], separators, suffix)
    pub fn parts(&self) -> (String, Vec<(String, String, String)>, String, String) {
        let d = self.path.len();
        let mut prefix = String::new();
        let mut suffix = String::new();
        for i in 0..d - 1 {
            prefix.push_str(&self.open(&self.path[i], i));
            prefix.push_str(&fill(&self.pre[i]));
        }
        for i in (0..d - 1).rev() {
            suffix.push_str(&fill(&self.post[i]));
            suffix.push_str(&self.close(&self.path[i]));
        }
        let tag = &self.path[d - 1];
        let occ: Vec<(String, String, String)> = self
            .targets
            .iter()
            .map(|inner| match self.kind {
                TargetKind::Normal => (self.open(tag, d - 1), fill(inner), self.close(tag)),
                TargetKind::Void => (format!("<{tag} name=\"x\">"), String::new(), String::new()),
                TargetKind::SelfClosing => (format!("<{tag} a=\"1\"/>"), String::new(), String::new()),
            })
            .collect();
        let sep = self.separator.map(|s| FILLERS[s].to_string()).unwrap_or_default();
        (prefix, occ, sep, suffix)
    }
    pub fn serialize(&self) -> String {
        let (prefix, occ, sep, suffix) = self.parts();
        let mid: Vec<String> = occ.iter().map(|(o, i, c)| format!("{o}{i}{c}")).collect();
        format!("{prefix}{}{suffix}", mid.join(&sep))
    }
}

#[derive(Clone, Debug, Serialize, Deserialize, PartialEq, Eq)]
pub enum Sel {
    None,
    /// matches the filler <p class="k"> when it is inside the target
    PK,
    Nothing,
    /// Some(""): behaves as no selector
    Empty,
    /// a selector the engine cannot parse (`a:visited`, `meta[property=og:title]`): it matches no element
    Unparsable,
    UnparsableAttr,
    /// `body` / `head, span.nomatch`: type selectors naming the document skeleton. The documents here hold no such element
    /// inside a target (and these selectors are not used on a target that IS the body / the head), so they match nothing
    Body,
    HeadOrSpan,
}

#[derive(Clone, Debug, Serialize, Deserialize)]
pub struct Filt {
    pub action: String,
    pub selector: Sel,
    pub value: String,
    /// the API filter's inner_value differs from value (it must not reach the document)
    #[serde(default)]
    pub distinct_inner: bool,
}

impl Filt {
    fn spec(&self, path: &[String]) -> FilterSpec {
        let p: Vec<&str> = path.iter().map(|s| s.as_str()).collect();
        let sel = match self.selector {
            Sel::None => None,
            Sel::PK => Some("p.k"),
            Sel::Nothing => Some("span.nomatch"),
            Sel::Empty => Some(""),
            Sel::Unparsable => Some("p:visited::before"),
            Sel::UnparsableAttr => Some("meta[property=og:title]"),
            Sel::Body => Some("body"),
            Sel::HeadOrSpan => Some("head, span.nomatch"),
        };
        let mut spec = FilterSpec::html(&self.action, &p, sel, &self.value);
        if self.distinct_inner {
            if let FilterSpec::Html { inner, .. } = &mut spec {
                *inner = Some("INNER-ONLY".to_string());
            }
        }
        spec
    }
}

/// reference edit of one occurrence
fn edit_occurrence(f: &Filt, kind: &TargetKind, open: &str, inner: &str, close: &str, inner_fillers: &[usize]) -> String {
    let selector_matches = match f.selector {
        Sel::None | Sel::Empty => None,
        Sel::PK => Some(inner_fillers.contains(&P_K) || inner_fillers.iter().any(|f| FILLERS[*f].starts_with("<P CLASS"))),
        Sel::Nothing | Sel::Unparsable | Sel::UnparsableAttr | Sel::Body | Sel::HeadOrSpan => Some(false),
    };
    match f.action.as_str() {
        "append_child" => {
            if selector_matches == Some(true) || *kind != TargetKind::Normal {
                format!("{open}{inner}{close}")
            } else {
                format!("{open}{inner}{}{close}", f.value)
            }
        }
        "prepend_child" => {
            if selector_matches == Some(true) || *kind != TargetKind::Normal {
                format!("{open}{inner}{close}")
            } else {
                format!("{open}{}{inner}{close}", f.value)
            }
        }
        "replace" => {
            if selector_matches == Some(false) {
                format!("{open}{inner}{close}")
            } else {
                f.value.clone()
            }
        }
        _ => format!("{open}{inner}{close}"),
    }
}

pub fn reference(doc: &Doc, f: &Filt) -> String {
    let (prefix, occ, sep, suffix) = doc.parts();
    let mid: Vec<String> = occ.iter().enumerate().map(|(i, (o, inner, c))| edit_occurrence(f, &doc.kind, o, inner, c, &doc.targets[i])).collect();
    format!("{prefix}{}{suffix}", mid.join(&sep))
}

#[derive(Clone, Debug, Serialize, Deserialize)]
pub enum Case {
    One(Doc, Filt),
    /// head + body document with one filter on [html, head] and one on [html, body, div]
    Two { head_inner: Vec<usize>, body_pre: Vec<usize>, div_inner: Vec<usize>, body_post: Vec<usize>, f_head: Filt, f_div: Filt, div_first: bool },
}

pub fn check(case: &Case) -> Option<(String, String)> {
    match case {
        Case::One(doc, f) => {
            let body = doc.serialize();
            let got = single_chunk(body.as_bytes(), &[f.spec(&doc.path)], &[("Content-Type".into(), "text/html; charset=utf-8".into())]);
            let want = reference(doc, f);
            if String::from_utf8_lossy(&got) != want {
                let feature = format!(
                    "{}:sel={:?}:depth={}:{:?}{}{}{}",
                    f.action,
                    f.selector,
                    doc.path.len(),
                    doc.kind,
                    if doc.targets.len() > 1 { ":siblings" } else { "" },
                    if doc.upper { ":upper" } else { "" },
                    if doc.attrs { ":attrs" } else { "" }
                );
                return Some((feature, format!("document {body:?} filter {f:?} on path {:?}: output {:?}, reference edit {:?}", doc.path, String::from_utf8_lossy(&got), want)));
            }
            None
        }
        Case::Two { head_inner, body_pre, div_inner, body_post, f_head, f_div, div_first } => {
            let body = format!("<html><head>{}</head><body>{}<div>{}</div>{}</body></html>", fill(head_inner), fill(body_pre), fill(div_inner), fill(body_post));
            let head_path = vec!["html".to_string(), "head".to_string()];
            let div_path = vec!["html".to_string(), "body".to_string(), "div".to_string()];
            let specs = if *div_first { vec![f_div.spec(&div_path), f_head.spec(&head_path)] } else { vec![f_head.spec(&head_path), f_div.spec(&div_path)] };
            let got = single_chunk(body.as_bytes(), &specs, &[]);
            let head = edit_occurrence(f_head, &TargetKind::Normal, "<head>", &fill(head_inner), "</head>", head_inner);
            let div = edit_occurrence(f_div, &TargetKind::Normal, "<div>", &fill(div_inner), "</div>", div_inner);
            let want = format!("<html>{head}<body>{}{div}{}</body></html>", fill(body_pre), fill(body_post));
            if String::from_utf8_lossy(&got) != want {
                return Some((
                    format!("two-filters:{}+{}:sel={:?}+{:?}", f_head.action, f_div.action, f_head.selector, f_div.selector),
                    format!("document {body:?} filters {f_head:?} on [html,head], {f_div:?} on [html,body,div] (div first: {div_first}): output {:?}, reference {:?}", String::from_utf8_lossy(&got), want),
                ));
            }
            None
        }
    }
}

pub fn replay(case: &Value) -> Vec<String> {
    if let Some(r) = super::big::replay("C15", case) {
        return r;
    }
    match serde_json::from_value::<Case>(case.clone()) {
        Ok(c) => match crate::common::guarded(|| check(&c)) {
            Ok(r) => r.into_iter().map(|(s, _)| s).collect(),
            Err((loc, _)) => vec![format!("panic:{loc}")],
        },
        Err(_) => vec![],
    }
}

fn filler_lists(max: usize) -> Vec<Vec<usize>> {
    let mut out: Vec<Vec<usize>> = vec![vec![]];
    let mut layer: Vec<Vec<usize>> = vec![vec![]];
    for _ in 0..max {
        let mut next = Vec::new();
        for l in &layer {
            for f in 0..FILLERS.len() {
                let mut n = l.clone();
                n.push(f);
                next.push(n);
            }
        }
        out.extend(next.iter().cloned());
        layer = next;
    }
    out
}

pub fn filters() -> Vec<Filt> {
    let mut v = Vec::new();
    for action in ["append_child", "prepend_child", "replace"] {
        for selector in [Sel::None, Sel::PK, Sel::Nothing, Sel::Empty, Sel::Unparsable, Sel::UnparsableAttr] {
            for value in [V1, V2] {
                v.push(Filt { action: action.to_string(), selector: selector.clone(), value: value.to_string(), distinct_inner: value == V2 });
            }
        }
        // the empty value: replace then REMOVES the element, the two insertions change nothing
        for selector in [Sel::None, Sel::PK, Sel::Nothing] {
            v.push(Filt { action: action.to_string(), selector, value: String::new(), distinct_inner: false });
        }
        for selector in [Sel::Body, Sel::HeadOrSpan] {
            v.push(Filt { action: action.to_string(), selector, value: V1.to_string(), distinct_inner: false });
        }
    }
    v
}

/// the skeleton selectors are not used where the target itself is the element they name
fn applicable(path: &[String], f: &Filt) -> bool {
    match f.selector {
        Sel::Body => path.last().map(|l| l != "body" && l != "html").unwrap_or(true),
        Sel::HeadOrSpan => path.last().map(|l| l != "head" && l != "html").unwrap_or(true),
        _ => true,
    }
}

pub fn cases(tier: Tier) -> Vec<Case> {
    let paths: Vec<Vec<&str>> = vec![vec!["html"], vec!["html", "body"], vec!["html", "body", "div"], vec!["html", "body", "div", "section"], vec!["html", "head"],
        // the same element name twice in a row, and a repeating pair
        vec!["html", "body", "div", "div"], vec!["html", "body", "ul", "li", "ul", "li"]];
    let inner_lists = filler_lists(tier.pick(2, 3));
    let side_lists = filler_lists(tier.pick(1, 2));
    let fl = filters();
    let mut out = Vec::new();
    for path in &paths {
        let d = path.len();
        let p: Vec<String> = path.iter().map(|s| s.to_string()).collect();
        let empty_sides = vec![vec![]; d - 1];
        let mut docs: Vec<Doc> = Vec::new();
        // star scheme: default fillers everywhere, one place at a time takes every value
        for inner in &inner_lists {
            docs.push(Doc { path: p.clone(), pre: empty_sides.clone(), post: empty_sides.clone(), targets: vec![inner.clone()], separator: None, kind: TargetKind::Normal, upper: false, attrs: false });
        }
        for level in 0..d.saturating_sub(1) {
            for pre in &side_lists {
                for post in &side_lists {
                    // (thorough tier: two-filler lists on one side at a time, the full square does not fit in memory)
                    if pre.len() > 1 && post.len() > 1 {
                        continue;
                    }
                    let mut dpre = empty_sides.clone();
                    let mut dpost = empty_sides.clone();
                    dpre[level] = pre.clone();
                    dpost[level] = post.clone();
                    for inner in [vec![], vec![0], vec![P_K, 9]] {
                        docs.push(Doc { path: p.clone(), pre: dpre.clone(), post: dpost.clone(), targets: vec![inner], separator: None, kind: TargetKind::Normal, upper: false, attrs: false });
                    }
                }
            }
        }
        // every level filled at once, upper-case tags, attributes
        for (upper, attrs) in [(true, false), (false, true), (true, true)] {
            for inner in inner_lists.iter().step_by(tier.pick(7, 1)) {
                let sides: Vec<Vec<usize>> = (0..d - 1).map(|i| vec![(i * 3 + 1) % FILLERS.len()]).collect();
                docs.push(Doc { path: p.clone(), pre: sides.clone(), post: sides.clone(), targets: vec![inner.clone()], separator: None, kind: TargetKind::Normal, upper, attrs });
            }
        }
        for (di, doc) in docs.into_iter().enumerate() {
            // the thorough tier holds millions of documents: the filters added after round 6 (empty value, skeleton selectors) go
            // with every 4th of them there (with every document in the quick tier)
            let late = |f: &Filt| f.value.is_empty() || matches!(f.selector, Sel::Body | Sel::HeadOrSpan);
            for f in fl.iter().filter(|f| applicable(&doc.path, f) && (tier == Tier::Quick || di % 4 == 0 || !late(f))) {
                out.push(Case::One(doc.clone(), f.clone()));
            }
        }
        // replace on repeated siblings, void and self-closing targets (not at depth 1: the root occurs once)
        if d >= 2 {
            let sides: Vec<Vec<usize>> = (0..d - 1).map(|_| vec![0]).collect();
            // "for every sibling occurrence of the target": 2, 3 and 4 siblings (odd and even counts), for all three edits
            for k in 2..=4usize {
                for sep in [None, Some(0), Some(3), Some(2)] {
                    for inners in [vec![vec![]; k], (0..k).map(|i| vec![(i * 4) % FILLERS.len()]).collect::<Vec<_>>(), (0..k).map(|i| if i % 2 == 0 { vec![P_K] } else { vec![3] }).collect::<Vec<_>>()] {
                        let doc = Doc { path: p.clone(), pre: sides.clone(), post: sides.clone(), targets: inners, separator: sep, kind: TargetKind::Normal, upper: false, attrs: false };
                        for f in fl.iter().filter(|f| applicable(&doc.path, f)) {
                            out.push(Case::One(doc.clone(), f.clone()));
                        }
                    }
                }
            }
            for (kind, tag) in [(TargetKind::Void, "meta"), (TargetKind::SelfClosing, "div"), (TargetKind::Void, "br2")] {
                if tag == "br2" {
                    continue;
                }
                let mut vp = p.clone();
                let last = vp.len() - 1;
                vp[last] = tag.to_string();
                if vp[..last].contains(&tag.to_string()) {
                    continue;
                }
                for k in 1..=3usize {
                    for sep in [None, Some(0)] {
                        let doc = Doc { path: vp.clone(), pre: sides.clone(), post: sides.clone(), targets: vec![vec![]; k], separator: sep, kind: kind.clone(), upper: false, attrs: false };
                        for f in fl.iter().filter(|f| f.action == "replace" && f.selector == Sel::None) {
                            out.push(Case::One(doc.clone(), f.clone()));
                        }
                    }
                }
            }
        }
    }
    // pairs of filters on disjoint targets, both chain orders
    let small = filler_lists(1);
    for head_inner in &small {
        for div_inner in small.iter().chain([vec![P_K, 0]].iter()) {
            for f_head in fl.iter().filter(|f| f.value == V1 && !matches!(f.selector, Sel::Body | Sel::HeadOrSpan)) {
                for f_div in fl.iter().filter(|f| f.value == V2) {
                    for div_first in [false, true] {
                        if tier == Tier::Quick && (head_inner.len() + div_inner.len()) % 2 == 1 && div_first {
                            continue;
                        }
                        out.push(Case::Two {
                            head_inner: head_inner.clone(),
                            body_pre: vec![0],
                            div_inner: div_inner.clone(),
                            body_post: vec![3],
                            f_head: f_head.clone(),
                            f_div: f_div.clone(),
                            div_first,
                        });
                    }
                }
            }
        }
    }
    out
}

pub fn run(tier: Tier) -> i32 {
    let ctx = Ctx::new("C15", tier, "exploration");
    let cases = cases(tier);
    let edited = DistinctSet::new();
    let samples = Samples::new(6);
    par_range(ctx.threads, cases.len(), |i| {
        ctx.eval(1);
        let res = match crate::common::watched(|| serde_json::to_value(&cases[i]).unwrap(), || crate::common::guarded(|| check(&cases[i]))) {
            Ok(r) => r,
            Err((loc, msg)) => Some((format!("panic:{loc}"), format!("panicked at {loc}: {msg}; case {:?}", cases[i]))),
        };
        if let Some((sig, what)) = res {
            let w = match &cases[i] {
                Case::One(d, _) => d.serialize().len() as u64,
                Case::Two { .. } => 500,
            };
            ctx.report(Violation { signature: sig, what, case: serde_json::to_value(&cases[i]).unwrap(), weight: w });
        }
        if let Case::One(doc, f) = &cases[i] {
            let want = reference(doc, f);
            if want != doc.serialize() && edited.insert_str(&want) && i % 101 == 0 {
                samples.offer(|| json!({"document": doc.serialize(), "path": doc.path, "filter": f, "expected": want}));
            }
        }
    });
    let (big_cases, _) = super::big::run(&ctx, "C15", tier == Tier::Thorough);
    let mut cov = Coverage::new();
    cov.set("size_threshold_pass", json!({"cases": big_cases, "run_lengths": super::big::runs(tier == Tier::Thorough),
        "what": "generated documents with one long run (4 KiB .. 512 KiB / 2 MiB) inside one of 11 constructs x 4 filter lists: the one-chunk output must be the exact expected edit"}));
    cov.set("distinct_nontrivial", json!(edited.len()))
        .set("rule", json!("evaluations = (generated document, filter list) cases; distinct_nontrivial = distinct expected outputs that differ from their input document (an edit takes place)"))
        .set("cases", json!(cases.len()))
        .set("samples", json!(samples.take()))
        .set("exhaustive", json!(true))
        .set("bound", json!("paths of depth 1-4 (+ [html,head]); target content = every list of <=2 fillers over 10 fillers (text, entity, comment with markup, p, p.k, span with quoted attribute, br, img/, upper-case EM, script with '<'); per ancestor level every (pre, post) filler combination one level at a time; upper-case / attribute variants; replace on 2-3 siblings with separators, on void (meta) and self-closing targets; pairs of filters on [html,head] and [html,body,div] in both chain orders; 3 actions x {no selector, matching, non-matching} x 2 values"));
    cov.assume("generated documents never contain a path tag name outside the path, append/prepend targets are unique and non-void (the statement's preconditions)");
    finish(&ctx, cov, &replay)
}
