//! Size thresholds (shared by C03, C04 and C15): documents with ONE long run inside one construct, for run lengths just
//! above every power of two from 4 KiB to 512 KiB (quick) / 2 MiB (thorough). The small corpora of C03 / C04 / C15 explore
//! every partition of bodies of ~100 bytes; a buffer limit, a "flush when larger than" guard or a fixed-size scratch area only
//! shows on a body that is larger than the limit and, often, only for some chunk sizes. Here the documents are generated,
//! so the exact expected output is known (C15), and every document is delivered under a family of schedules: one chunk,
//! uniform strides from 1 000 bytes to 100 000 bytes, and single cuts around the boundaries of the long run (C03: every
//! schedule gives the one-chunk output; C04: the output is the input with only the configured edits).

use crate::common::{Ctx, Violation};
use crate::corpus::{S1, S2};
use crate::engines::chunk::{run_schedule, FilterSpec};
use serde::{Deserialize, Serialize};
use serde_json::{json, Value};

#[derive(Clone, Copy, Debug, Serialize, Deserialize, PartialEq, Eq)]
pub enum Construct {
    /// plain text (no '<') in a <pre> before the target
    TextBefore,
    /// text with literal " < " in it, before the target
    TextWithLt,
    /// attribute value of <body>, an element of the filters' paths
    AttrOnPath,
    /// attribute value of an element outside the paths
    AttrElsewhere,
    /// a comment that contains "<div>c</div>" after the run
    Comment,
    Cdata,
    Script,
    Style,
    Textarea,
    /// the content of the target <div> itself (many <p> children)
    TargetContent,
    /// text after the target
    TextAfter,
    /// the target <div> contains <span>s nested `run / 100` levels deep (a tag name outside the filters' paths: the statement's
    /// precondition is that each element of a path occurs once)
    DeepNesting,
    /// the target <div> contains `run / 50` sibling <span> elements, each with a void and a self-closing child
    ManyChildren,
}

pub const CONSTRUCTS: [Construct; 13] = [
    Construct::TextBefore,
    Construct::TextWithLt,
    Construct::AttrOnPath,
    Construct::AttrElsewhere,
    Construct::Comment,
    Construct::Cdata,
    Construct::Script,
    Construct::Style,
    Construct::Textarea,
    Construct::TargetContent,
    Construct::TextAfter,
    Construct::DeepNesting,
    Construct::ManyChildren,
];

#[derive(Clone, Debug, Serialize, Deserialize)]
pub struct Case {
    pub construct: Construct,
    pub run: usize,
    pub filter: usize,
}

fn filler(n: usize, unit: &str) -> String {
    let mut s = String::with_capacity(n + unit.len());
    while s.len() < n {
        s.push_str(unit);
    }
    s
}

pub struct Doc {
    pub head: String,
    pub body_open: String,
    pub pre: String,
    pub div_open: String,
    pub div_inner: String,
    pub div_close: String,
    pub post: String,
}

impl Doc {
    pub fn serialize(&self) -> String {
        format!("<html><head>{}</head>{}{}{}{}{}{}</body></html>", self.head, self.body_open, self.pre, self.div_open, self.div_inner, self.div_close, self.post)
    }
}

pub fn doc(c: Construct, n: usize) -> Doc {
    let mut d = Doc {
        head: "<title>t</title>".into(),
        body_open: "<body>".into(),
        pre: "<p>before</p>".into(),
        div_open: "<div>".into(),
        div_inner: "<p class=\"z\">in</p>".into(),
        div_close: "</div>".into(),
        post: "<p>after</p>".into(),
    };
    match c {
        Construct::TextBefore => d.pre = format!("<pre>{}</pre>", filler(n, "log line 0123456789 abcdefghij\n")),
        Construct::TextWithLt => d.pre = format!("<p>{}</p>", filler(n, "1 < 2 and a <= b; ")),
        Construct::AttrOnPath => d.body_open = format!("<body style=\"background:url(data:image/png;base64,{})\">", filler(n, "iVBORw0KGgoAAAANSUhEUgAA")),
        Construct::AttrElsewhere => d.pre = format!("<img alt=\"x\" src=\"data:image/png;base64,{}\">", filler(n, "iVBORw0KGgoAAAANSUhEUgAA")),
        Construct::Comment => d.pre = format!("<!-- {} <div>c</div> -->", filler(n, "<tr><td>old row</td></tr>\n")),
        Construct::Cdata => d.pre = format!("<![CDATA[{}]]>", filler(n, "cdata <div> text ")),
        Construct::Script => d.head = format!("<title>t</title><script>{}</script>", filler(n, "var a = '<div>' + 1;\n")),
        Construct::Style => d.head = format!("<title>t</title><style>{}</style>", filler(n, "div > p { color: red }\n")),
        Construct::Textarea => d.pre = format!("<textarea>{}</textarea>", filler(n, "text <div>area</div> ")),
        Construct::TargetContent => d.div_inner = filler(n, "<p class=\"z\">some words</p>\n"),
        Construct::TextAfter => d.post = format!("<pre>{}</pre>", filler(n, "trailing line 0123456789\n")),
        Construct::DeepNesting => {
            let depth = (n / 100).max(2);
            d.div_inner = format!("{}core{}", "<span class=\"n\">".repeat(depth), "</span>".repeat(depth));
        }
        Construct::ManyChildren => {
            let k = (n / 50).max(2);
            d.div_inner = "<span>s<br><img src=x/></span>".repeat(k);
        }
    }
    d
}

pub fn filters() -> Vec<(&'static str, Vec<FilterSpec>)> {
    vec![
        ("append[html,body]", vec![FilterSpec::html("append_child", &["html", "body"], None, S1)]),
        ("prepend[html,body]", vec![FilterSpec::html("prepend_child", &["html", "body"], None, S1)]),
        ("replace[html,body,div]", vec![FilterSpec::html("replace", &["html", "body", "div"], None, S1)]),
        ("append[html,body,div]sel(p.k)+append_text", vec![FilterSpec::html("append_child", &["html", "body", "div"], Some("p.k"), S1), FilterSpec::text("append_text", S2)]),
    ]
}

/// the exact expected output: the documents are generated, the position of every edit is known
pub fn expected(d: &Doc, filter: usize) -> String {
    match filter {
        0 => format!("<html><head>{}</head>{}{}{}{}{}{}{}</body></html>", d.head, d.body_open, d.pre, d.div_open, d.div_inner, d.div_close, d.post, S1),
        1 => format!("<html><head>{}</head>{}{}{}{}{}{}{}</body></html>", d.head, d.body_open, S1, d.pre, d.div_open, d.div_inner, d.div_close, d.post),
        2 => format!("<html><head>{}</head>{}{}{}{}</body></html>", d.head, d.body_open, d.pre, S1, d.post),
        _ => format!("<html><head>{}</head>{}{}{}{}{}{}{}</body></html>{}", d.head, d.body_open, d.pre, d.div_open, d.div_inner, S1, d.div_close, d.post, S2),
    }
}

pub fn runs(thorough: bool) -> Vec<usize> {
    // just above 4, 16, 32, 64, 128, 256, 512 KiB (1, 2 MiB)
    let mut v = vec![4_200, 16_500, 33_000, 66_000, 132_000, 263_000, 525_000];
    if thorough {
        v.extend([8_300, 1_050_000, 2_100_000]);
    }
    v
}

pub fn schedules(n: usize, run_start: usize, run_len: usize) -> Vec<Vec<usize>> {
    let mut v: Vec<Vec<usize>> = vec![vec![n]];
    for s in [1000usize, 4096, 16384, 32768, 65536, 100_000] {
        if s >= n {
            continue;
        }
        let mut sched = vec![s; n / s];
        if n % s != 0 {
            sched.push(n % s);
        }
        v.push(sched);
    }
    let run_end = run_start + run_len;
    for p in [run_start.saturating_sub(1), run_start + 1, run_start + run_len / 2, run_end.saturating_sub(1), run_end + 1] {
        if p > 0 && p < n {
            v.push(vec![p, n - p]);
        }
    }
    v
}

fn strip(out: &[u8]) -> Vec<u8> {
    let mut res = Vec::with_capacity(out.len());
    let mut i = 0;
    while i < out.len() {
        if out[i..].starts_with(S1.as_bytes()) {
            i += S1.len();
        } else if out[i..].starts_with(S2.as_bytes()) {
            i += S2.len();
        } else {
            res.push(out[i]);
            i += 1;
        }
    }
    res
}

fn excerpt(a: &[u8], b: &[u8]) -> String {
    let p = a.iter().zip(b.iter()).position(|(x, y)| x != y).unwrap_or(a.len().min(b.len()));
    let s = p.saturating_sub(30);
    format!(
        "lengths {} / {}, first difference at byte {p}: ...{:?}... vs ...{:?}...",
        a.len(),
        b.len(),
        String::from_utf8_lossy(&a[s..(p + 40).min(a.len())]),
        String::from_utf8_lossy(&b[s..(p + 40).min(b.len())])
    )
}

/// findings of one case for the given property ("C03" / "C04" / "C15")
pub fn check_case(prop: &str, case: &Case) -> Vec<(String, String)> {
    let d = doc(case.construct, case.run);
    let body = d.serialize().into_bytes();
    let fl = filters();
    let (fname, f) = &fl[case.filter % fl.len()];
    let want = expected(&d, case.filter % fl.len()).into_bytes();
    let name = format!("{:?}:{fname}", case.construct);
    let mut out = Vec::new();
    let one = run_schedule(&body, f, &[], &[body.len()]);
    if prop == "C15" {
        if one != want {
            out.push((format!("big-body:edit-differs-from-reference:{name}"), format!("run of {} bytes in {:?}, filters {fname}, one chunk: {}", case.run, case.construct, excerpt(&one, &want))));
        }
        return out;
    }
    // where the long run sits (for the cuts around it)
    let unit_pos = body.windows(8).position(|w| w == &filler(8, match case.construct {
        Construct::TextBefore => "log line 0123456789 abcdefghij\n",
        Construct::TextWithLt => "1 < 2 and a <= b; ",
        Construct::AttrOnPath | Construct::AttrElsewhere => "iVBORw0KGgoAAAANSUhEUgAA",
        Construct::Comment => "<tr><td>old row</td></tr>\n",
        Construct::Cdata => "cdata <div> text ",
        Construct::Script => "var a = '<div>' + 1;\n",
        Construct::Style => "div > p { color: red }\n",
        Construct::Textarea => "text <div>area</div> ",
        Construct::TargetContent => "<p class=\"z\">some words</p>\n",
        Construct::TextAfter => "trailing line 0123456789\n",
        Construct::DeepNesting => "<span class=\"n\">",
        Construct::ManyChildren => "<span>s<br><img src=x/></span>",
    }).as_bytes()[..8]).unwrap_or(0);
    for sched in schedules(body.len(), unit_pos, case.run) {
        crate::common::beat();
        let got = if sched.len() == 1 { one.clone() } else { run_schedule(&body, f, &[], &sched) };
        let label = if sched.len() == 1 { "one-chunk".to_string() } else if sched.len() == 2 { "one-cut".to_string() } else { format!("stride-{}", sched[0]) };
        if prop == "C03" && got != one {
            out.push((
                format!("big-body:chunked-differs-from-one-chunk:{name}"),
                format!("run of {} bytes in {:?}, filters {fname}, schedule {label} ({} chunks, first {}): {}", case.run, case.construct, sched.len(), sched[0], excerpt(&got, &one)),
            ));
            break;
        }
        if prop == "C04" {
            // insert-only lists: output minus the values == input; the replace list: output minus the value == input minus the div
            let stripped = strip(&got);
            let conserved = if case.filter % fl.len() == 2 {
                let without_div = format!("<html><head>{}</head>{}{}{}</body></html>", d.head, d.body_open, d.pre, d.post).into_bytes();
                stripped == body || stripped == without_div
            } else {
                stripped == body
            };
            if !conserved {
                out.push((
                    format!("big-body:not-conserved:{name}"),
                    format!("run of {} bytes in {:?}, filters {fname}, schedule {label}: output minus the inserted values vs input: {}", case.run, case.construct, excerpt(&stripped, &body)),
                ));
                break;
            }
        }
    }
    out
}

pub fn cases(thorough: bool) -> Vec<Case> {
    let mut v = Vec::new();
    for run in runs(thorough) {
        for construct in CONSTRUCTS {
            for filter in 0..filters().len() {
                v.push(Case { construct, run, filter });
            }
        }
    }
    v
}

/// run the pass for one property; returns (cases, schedules executed)
pub fn run(ctx: &Ctx, prop: &'static str, thorough: bool) -> (u64, u64) {
    let cs = cases(thorough);
    let scheds = std::sync::atomic::AtomicU64::new(0);
    crate::common::par_range(ctx.threads, cs.len(), |i| {
        let c = &cs[i];
        let case_json = || json!({"big": c, "watch_label": "big-body"});
        let found = crate::common::run_case(case_json, || check_case(prop, c));
        scheds.fetch_add(if prop == "C15" { 1 } else { 12 }, std::sync::atomic::Ordering::Relaxed);
        for (sig, what) in found {
            ctx.report(Violation { signature: sig, what, case: json!({"big": c}), weight: c.run as u64 });
        }
    });
    (cs.len() as u64, scheds.load(std::sync::atomic::Ordering::Relaxed))
}

pub fn replay(prop: &str, case: &Value) -> Option<Vec<String>> {
    let c: Case = serde_json::from_value(case.get("big")?.clone()).ok()?;
    Some(match crate::common::guarded(|| check_case(prop, &c)) {
        Ok(v) => v.into_iter().map(|(s, _)| s).collect(),
        Err((loc, _)) => vec![format!("panic:{loc}")],
    })
}
