//! C17 — the explain trace agrees with what matching actually does.
//!
//! Engine E1: the same insert-only exploration and probe sets as C01; at every state and probe the set of
//! rules in the match trace must equal the set matched for the normalised request, the traced final rule
//! must have the priority of the rule selected by direct lookup, and (tie-free ranks) the last
//! action-trace step must serialise like the live action.

use crate::common::Tier;
use crate::engines::router_mc::Checks;
use serde_json::Value;

const CHECKS: Checks = Checks { c01: false, c02: false, c12: false, c17: true };

pub fn replay(case: &Value) -> Vec<String> {
    super::c01::replay_with("C17", CHECKS, case)
}

pub fn run(tier: Tier) -> i32 {
    super::c01::run_insert_only("C17", CHECKS, tier)
}
