//! C08 — the regex prefix tree answers exactly like a linear scan of its patterns.
//! (also provides the tree half of C12: cache transparency at every explored state)
//!
//! Engine: explicit-state BFS over histories of insert / remove / retain / cache on the real
//! `RegexTreeMap<String>` and `UniqueRegexTreeMap<String>`; state key = structural snapshot (hook H1)
//! + reference map.

use crate::common::{finish, Coverage, Ctx, DistinctSet, Samples, Tier, Violation};
use crate::engines::bfs::{explore, Explorable};
use redirectionio::regex_radix_tree::{RegexTreeMap, UniqueRegexTreeMap, VerifTreeSnap};
use regex::RegexBuilder;
use serde::{Deserialize, Serialize};
use serde_json::{json, Value};
use std::collections::BTreeMap;
use std::sync::atomic::{AtomicU64, Ordering};

pub const MAIN_PATTERNS: &[&str] = &[
    r"/a/(?:[a-z]+)",
    r"/a/(?:[a-z]+)/c",
    r"/a/(?:[a-z]+)/d",
    r"/a/(?:[0-9]+)/c",
    r"/a\.b/(?:.+?)",
    r"/a\.c/(?:.+?)",
    r"/a/b",
    r"/A/(?:[a-z]+)",
    r"/a/b/c",
    r"/a/(?:(?:cat|dog))",
    r"/é/(?:[a-z]+)",
    r"/é/(?:[0-9]+)",
    r"/a/\(x\)/(?:[a-z]+)",
    r"(?:[a-z]+)\.example",
    r"/éé/(?:[a-z]+)",
    r"/éé/(?:[0-9]+)",
];

/// patterns diverging at special positions: directly after a backslash, inside a multi-byte prefix
pub const EDGE_PATTERNS: &[&str] = &[
    r"/a\.b/(?:.+?)",
    r"/a\-b/(?:.+?)",
    r"/a\.c/(?:[a-z]+)",
    r"/éé/(?:[a-z]+)",
    r"/éé/(?:[0-9]+)",
    r"/éa/(?:[a-z]+)",
    r"/a/(?:[a-z]+)",
    r"/a/(?:[a-z]+)\.x",
    r"Abc/(?:[a-z]+)",
    r"a?bc/(?:[a-z]+)",
];

/// patterns that nest three node levels deep (a node that is the last child of a node that is not the last child of its
/// parent, ...): explored insert-only, every insertion order of every subset
pub const NESTED_PATTERNS: &[&str] = &[
    r"/a/b",
    r"/a/c/(?:[a-z]+)/d",
    r"/a/c/(?:[a-z]+)/e",
    r"/x/(?:[a-z]+)",
    r"/y/(?:[a-z]+)",
    r"/a/c/(?:[a-z]+)/e/f",
    r"/x/y/(?:[0-9]+)",
];

/// letters with more than two case forms (Unicode simple case folding: sigma, long s, micro sign, kelvin sign) in the
/// literal part: "ignore case" is the regex engine's folding, not to_lowercase()
pub const FOLD_PATTERNS: &[&str] = &[
    r"/ς/(?:[a-z]+)",
    r"/σκ/(?:[0-9]+)",
    r"/ſt/(?:[a-z]+)",
    r"/µ/(?:[a-z]+)",
    r"/K/(?:[a-z]+)",
    r"/a/(?:[a-z]+)",
    // two patterns sharing a NODE prefix with a non-ASCII cased letter (looked up in the other case), a pattern that shares no
    // prefix with the others (catch-all root node) and accepts a line feed
    r"/É/(?:[a-z]+)",
    r"/É/(?:[0-9]+)",
    r"(?:[^/]+)\.example",
    // two patterns sharing a plain ASCII node prefix whose letters have non-ASCII case forms (long s, Kelvin sign)
    r"/sk/(?:[a-z]+)",
    r"/sk/(?:[0-9]+)",
];

/// Perl classes and their negations (equal up to the case of the escape), classes that are Unicode-aware, a counted repetition
/// whose compiled program is megabytes large, a literal prefix whose regex source is longer than its text
pub const CLASS_ESCAPE_PATTERNS: &[&str] = &[
    r"/u/(?:\d+)",
    r"/u/(?:\D+)",
    r"/u/(?:\w+)/x",
    r"/u/(?:\W+)/x",
    r"/x\-y\-z/(?:[0-9]+)",
    r"/x\-y\-z/(?:[a-z]+)/e",
    r"/x\-y\-z/(?:[a-z]+)",
];

/// marker expressions whose character classes contain parentheses (own signature family)
pub const CLASS_PATTERNS: &[&str] = &[
    r"/a/(?:[^)]+)",
    r"/a/(?:[^)]+)/x",
    r"/a/(?:[(]b)",
    r"/a/(?:[(]c)",
    r"/a/(?:[a-z]+)",
    r"/a/(?:[]()]+)",
    r"/a/(?:[^]()]+)/x",
    r"/a/(?:[[:alpha:]()]+)/y",
];

pub const HAYSTACKS: &[&str] = &[
    "/a/b", "/a/B", "/A/b", "/A/B", "/a/bc", "/a/b/c", "/a/b/d", "/a/b/c/d", "/a/1/c", "/a/1/d", "/a/12/c", "/a/cat", "/a/dog", "/a/cow",
    "/a/", "/a", "", "/", "/a.b/x", "/a.c/x", "/aXb/x", "/a.b/", "/a.b/x/y", "/a.c/", "/é/b", "/é/1", "/e/b", "/é/", "/a/(x)/q", "/a/(x)/", "/a/x/q",
    "b.example", "B.example", "b.Example", "bXexample", ".example", "/a/b\n", "x/a/b", "/a/b)", "/a/(b", "/a/(c", "/a/(b/x", "/a/)/x", "/a/q/x", "/a/(d",
    "/a/]", "/a/()", "/a/q)/x", "/a/(/x", "/a/b(/y", "/a/]/x", "/a/b/y",
    "/a-b/x", "/a.c/x", "/éé/b", "/éé/1", "/éa/b", "/a/b.x", "/a/bXx",
    "abc/x", "Abc/x", "bc/x", "ABC/X",
    "/w/q/c0", "/w/q/c1", "/w/q/c4", "/w/q/c8", "/w/q/c9", "/w/q/c10", "/W/Q/C9",
    "/a/c/q/d", "/a/c/q/e", "/a/c/q/e/f", "/x/q", "/y/q", "/x/y/7", "/x/y",
    "/é/b", "/É/b", "/é/7", "a\nb.example", "/É/b\n",
    "/s/a/p", "/s/ab/p", "/s/abcdefghij/p", "/s/abc/q",
    "/u/42", "/u/ab", "/u/٤٢", "/u/é/x", "/u/-/x", "/u/a1/x", "/h/abc", "/h/é-1", "/x-y-z/7", "/x-y-z/a", "/x-y-z/a/e", "/x-y-z/",
    "/ſk/b", "/s\u{212a}/1", "/SK/b", "/sk/7",
    "/ς/b", "/Σ/b", "/σ/b", "/σκ/1", "/ΣΚ/1", "/ςκ/1", "/ſt/b", "/st/b", "/ST/b", "/µ/b", "/μ/b", "/Μ/b", "/K/b", "/k/b", "/\u{212a}/b",
];

#[derive(Clone, Debug, Serialize, Deserialize, PartialEq, Eq)]
pub enum Op {
    /// insert pattern index with id variant (0 = first id of the pattern, 1 = second id)
    Insert(usize, usize),
    Remove(usize, usize),
    RemoveAbsent,
    RetainEven,
    RetainOdd,
    RetainNone,
    Cache(u64, Option<u64>),
}

#[derive(Clone, Debug, Serialize, Deserialize)]
pub struct Config {
    pub set: String,
    pub patterns: Vec<String>,
    pub unique: bool,
    pub ignore_case: bool,
    pub second_ids: bool,
    pub cache_ops: bool,
    /// only first inserts (every insertion ORDER of every subset), to a greater depth
    #[serde(default)]
    pub insert_only: bool,
    /// the first `prefill` patterns are already stored in the initial state (a node with many children costs no depth)
    #[serde(default)]
    pub prefill: usize,
}

enum Tree {
    Multi(RegexTreeMap<String>),
    Unique(UniqueRegexTreeMap<String>),
}

impl Clone for Tree {
    fn clone(&self) -> Self {
        match self {
            Tree::Multi(t) => Tree::Multi(t.clone()),
            Tree::Unique(t) => Tree::Unique(t.clone()),
        }
    }
}

impl Tree {
    fn snapshot(&self) -> VerifTreeSnap {
        match self {
            Tree::Multi(t) => t.verif_snapshot(&|v| v.clone()),
            Tree::Unique(t) => t.verif_snapshot(&|v| v.clone()),
        }
    }
    fn find(&self, h: &str) -> Vec<String> {
        let mut v: Vec<String> = match self {
            Tree::Multi(t) => t.find(h).into_iter().cloned().collect(),
            Tree::Unique(t) => t.find(h).into_iter().cloned().collect(),
        };
        v.sort();
        v
    }
    /// as returned (children are visited in Vec order: warming the cache must not reorder them)
    fn find_ordered(&self, h: &str) -> Vec<String> {
        match self {
            Tree::Multi(t) => t.find(h).into_iter().cloned().collect(),
            Tree::Unique(t) => t.find(h).into_iter().cloned().collect(),
        }
    }
    fn len(&self) -> usize {
        match self {
            Tree::Multi(t) => t.len(),
            Tree::Unique(t) => t.len(),
        }
    }
    fn is_empty(&self) -> bool {
        match self {
            Tree::Multi(t) => t.is_empty(),
            Tree::Unique(t) => t.is_empty(),
        }
    }
    fn get(&self, p: &str) -> Vec<String> {
        let mut v: Vec<String> = match self {
            Tree::Multi(t) => t.get(p).into_iter().cloned().collect(),
            Tree::Unique(t) => t.get(p).into_iter().cloned().collect(),
        };
        v.sort();
        v
    }
    fn iter_values(&self) -> Vec<String> {
        let mut v: Vec<String> = match self {
            Tree::Multi(t) => t.iter().cloned().collect(),
            Tree::Unique(t) => t.iter().cloned().collect(),
        };
        v.sort();
        v
    }
    fn cache(&mut self, limit: u64, level: Option<u64>) -> u64 {
        match self {
            Tree::Multi(t) => t.cache(limit, level),
            Tree::Unique(t) => t.cache(limit, level),
        }
    }
}

pub struct State {
    tree: Tree,
    /// reference: (pattern index, id) -> value
    live: BTreeMap<(usize, String), String>,
    /// number of inserts so far per (pattern, id variant): gives each insert a fresh value
    versions: BTreeMap<(usize, usize), u32>,
    history: Vec<Op>,
}

pub struct Model<'a> {
    pub ctx: &'a Ctx,
    pub cfg: Config,
    /// accept[p][h]: does the anchored pattern p match haystack h (independent regex build)
    accept: Vec<Vec<bool>>,
    pub check_cache_grid: bool,
    pub prop: &'static str,
    pub find_checks: AtomicU64,
    pub nonempty_finds: AtomicU64,
    pub outcomes: DistinctSet,
    pub samples: Samples,
    pub max_tree_depth: AtomicU64,
    pub cache_grid_checks: AtomicU64,
}

fn id_of(cfg: &Config, p: usize, variant: usize) -> String {
    if cfg.unique {
        cfg.patterns[p].clone()
    } else {
        format!("id{}{}", p, if variant == 0 { "a" } else { "b" })
    }
}

fn snap_depth(s: &VerifTreeSnap) -> u64 {
    match s {
        VerifTreeSnap::Node { children, .. } => 1 + children.iter().map(snap_depth).max().unwrap_or(0),
        _ => 1,
    }
}

impl<'a> Model<'a> {
    pub fn new(ctx: &'a Ctx, cfg: Config, prop: &'static str, check_cache_grid: bool) -> Self {
        let accept = cfg
            .patterns
            .iter()
            .map(|p| {
                // a pattern that does not compile never matches
                match RegexBuilder::new(&format!("^(?:{p})$")).case_insensitive(cfg.ignore_case).build() {
                    Ok(re) => HAYSTACKS.iter().map(|h| re.is_match(h)).collect(),
                    Err(_) => HAYSTACKS.iter().map(|_| false).collect(),
                }
            })
            .collect();
        Model {
            ctx,
            cfg,
            accept,
            check_cache_grid,
            prop,
            find_checks: AtomicU64::new(0),
            nonempty_finds: AtomicU64::new(0),
            outcomes: DistinctSet::new(),
            samples: Samples::new(6),
            max_tree_depth: AtomicU64::new(0),
            cache_grid_checks: AtomicU64::new(0),
        }
    }

    fn case(&self, history: &[Op]) -> Value {
        json!({"config": self.cfg, "history": history})
    }

    fn violation(&self, kind: &str, detail: &str, what: String, history: &[Op]) {
        self.ctx.report(Violation {
            signature: format!("{}:{}:{}", kind, self.cfg.set, detail),
            what,
            case: self.case(history),
            weight: history.len() as u64,
        });
    }

    fn expected_find(&self, live: &BTreeMap<(usize, String), String>, hi: usize) -> Vec<String> {
        let mut v: Vec<String> = live.iter().filter(|((p, _), _)| self.accept[*p][hi]).map(|(_, v)| v.clone()).collect();
        v.sort();
        v
    }

    /// all invariants of one state (C08) / cache transparency over the full (limit, level) grid (C12)
    pub fn check(&self, s: &State) {
        let h = &s.history;
        if self.prop == "C08" {
            let mut outcome = String::new();
            for (hi, hay) in HAYSTACKS.iter().enumerate() {
                crate::common::beat();
                let got = s.tree.find(hay);
                let want = self.expected_find(&s.live, hi);
                self.find_checks.fetch_add(1, Ordering::Relaxed);
                if !want.is_empty() {
                    self.nonempty_finds.fetch_add(1, Ordering::Relaxed);
                }
                outcome.push_str(&format!("{got:?};"));
                if got != want {
                    // name the pattern of the first value that differs
                    let culprit = want
                        .iter()
                        .find(|v| !got.contains(v))
                        .or_else(|| got.iter().find(|v| !want.contains(v)))
                        .cloned()
                        .unwrap_or_default();
                    let pat = s
                        .live
                        .iter()
                        .find(|(_, v)| **v == culprit)
                        .map(|((p, _), _)| self.cfg.patterns[*p].clone())
                        .unwrap_or_else(|| "?".into());
                    let kind = if want.iter().any(|v| !got.contains(v)) { "find-missing" } else { "find-spurious-or-duplicate" };
                    self.violation(
                        kind,
                        &format!("pattern={pat}"),
                        format!(
                            "find({hay:?}) returned {got:?}, linear scan of live patterns gives {want:?} (unique={}, ignore_case={})",
                            self.cfg.unique, self.cfg.ignore_case
                        ),
                        h,
                    );
                }
            }
            self.outcomes.insert_str(&outcome);
            if s.tree.len() != s.live.len() {
                self.violation("len", "", format!("len()={} but {} values are live", s.tree.len(), s.live.len()), h);
            }
            if s.tree.is_empty() != s.live.is_empty() {
                self.violation("is_empty", "", format!("is_empty()={} but {} values are live", s.tree.is_empty(), s.live.len()), h);
            }
            for (pi, p) in self.cfg.patterns.iter().enumerate() {
                let got = s.tree.get(p);
                let mut want: Vec<String> = s.live.iter().filter(|((q, _), _)| *q == pi).map(|(_, v)| v.clone()).collect();
                want.sort();
                if got != want {
                    self.violation("get", &format!("pattern={p}"), format!("get({p:?}) returned {got:?}, stored under it: {want:?}"), h);
                }
            }
            let got = s.tree.iter_values();
            let mut want: Vec<String> = s.live.values().cloned().collect();
            want.sort();
            if got != want {
                self.violation("iter", "", format!("iter() yields {got:?}, live values are {want:?}"), h);
            }
            let d = snap_depth(&s.tree.snapshot());
            self.max_tree_depth.fetch_max(d, Ordering::Relaxed);
        }
        if self.check_cache_grid {
            // C12 (tree half): for every (limit, level): answers after cache == answers before
            let before: Vec<Vec<String>> = HAYSTACKS.iter().map(|hay| s.tree.find(hay)).collect();
            self.outcomes.insert_str(&format!("{before:?}"));
            // the state itself may be warmed (cache operations are part of the histories): its answers must be those of the
            // never-warmed tree holding the same values, i.e. the linear scan
            if s.history.iter().any(|op| matches!(op, Op::Cache(..))) {
                for (hi, hay) in HAYSTACKS.iter().enumerate() {
                    let want = self.expected_find(&s.live, hi);
                    if before[hi] != want {
                        self.violation(
                            "warmed-tree-differs-from-linear-scan",
                            "",
                            format!("after a history containing warm-ups find({hay:?}) returns {:?}, the values whose pattern matches are {want:?}", before[hi]),
                            h,
                        );
                        break;
                    }
                }
            }
            for limit in [0u64, 1, 2, 3, 8] {
                for level in [None, Some(0u64), Some(1), Some(2), Some(3)] {
                    crate::common::beat();
                    let mut t = s.tree.clone();
                    t.cache(limit, level);
                    self.cache_grid_checks.fetch_add(1, Ordering::Relaxed);
                    let mut second = None;
                    for (hi, hay) in HAYSTACKS.iter().enumerate() {
                        let after = t.find(hay);
                        if after == before[hi] && after.len() > 1 && t.find_ordered(hay) != s.tree.find_ordered(hay) {
                            self.violation(
                                "tree-cache-changes-result-order",
                                &format!("limit={limit},level={level:?}"),
                                format!("find({hay:?}) returns {:?} before cache({limit},{level:?}) and {:?} after (same values, other order)", s.tree.find_ordered(hay), t.find_ordered(hay)),
                                h,
                            );
                            break;
                        }
                        if after != before[hi] {
                            self.violation(
                                "tree-cache-changes-find",
                                &format!("limit={limit},level={level:?}"),
                                format!("find({hay:?}) was {:?} before cache({limit},{level:?}) and {after:?} after", before[hi]),
                                h,
                            );
                            break;
                        }
                        if hi == 0 {
                            // cache twice in a row
                            let mut t2 = t.clone();
                            t2.cache(limit, level);
                            second = Some(t2);
                        }
                    }
                    if let Some(t2) = second {
                        for (hi, hay) in HAYSTACKS.iter().enumerate() {
                            if t2.find(hay) != before[hi] {
                                self.violation(
                                    "tree-cache-twice-changes-find",
                                    &format!("limit={limit},level={level:?}"),
                                    format!("find({hay:?}) differs after calling cache({limit},{level:?}) twice"),
                                    h,
                                );
                                break;
                            }
                        }
                    }
                    if t.len() != s.tree.len() {
                        self.violation("tree-cache-changes-len", "", format!("len() is {} before cache({limit},{level:?}) and {} after", s.tree.len(), t.len()), h);
                    }
                    if t.iter_values() != s.tree.iter_values() {
                        self.violation("tree-cache-changes-iter", "", format!("iter() changed by cache({limit},{level:?})"), h);
                    }
                    for p in &self.cfg.patterns {
                        if t.get(p) != s.tree.get(p) {
                            self.violation("tree-cache-changes-get", "", format!("get({p:?}) changed by cache({limit},{level:?})"), h);
                            break;
                        }
                    }
                }
            }
        }
        self.samples.offer(|| json!({"history": s.history, "live": s.live.values().collect::<Vec<_>>(), "snapshot": format!("{:?}", s.tree.snapshot())}));
    }

    fn apply(&self, s: &State, op: &Op) -> State {
        let mut tree = s.tree.clone();
        let mut live = s.live.clone();
        let mut versions = s.versions.clone();
        let mut history = s.history.clone();
        history.push(op.clone());
        match op {
            Op::Insert(p, variant) => {
                let id = id_of(&self.cfg, *p, *variant);
                let n = versions.entry((*p, *variant)).or_insert(0);
                *n += 1;
                let value = format!("{}#{}", if self.cfg.unique { format!("u{p}") } else { id.clone() }, n);
                match &mut tree {
                    Tree::Multi(t) => t.insert(&self.cfg.patterns[*p], &id, value.clone()),
                    Tree::Unique(t) => t.insert(&self.cfg.patterns[*p], value.clone()),
                }
                live.insert((*p, id), value);
            }
            Op::Remove(p, variant) => {
                let id = id_of(&self.cfg, *p, *variant);
                let got = match &mut tree {
                    Tree::Multi(t) => t.remove(&id),
                    Tree::Unique(t) => t.remove(&id),
                };
                let want = live.remove(&(*p, id.clone()));
                if got != want {
                    self.violation(
                        "remove-return",
                        &format!("pattern={}", self.cfg.patterns[*p]),
                        format!("remove({id:?}) returned {got:?}, the stored value was {want:?}"),
                        &history,
                    );
                }
            }
            Op::RemoveAbsent => {
                let got = match &mut tree {
                    Tree::Multi(t) => t.remove("no-such-id"),
                    Tree::Unique(t) => t.remove("no-such-id"),
                };
                if got.is_some() {
                    self.violation("remove-return", "absent", format!("remove of an absent id returned {got:?}"), &history);
                }
            }
            Op::RetainEven | Op::RetainOdd | Op::RetainNone => {
                let keep = |v: &str| -> bool {
                    // values look like "id<p><a|b>#n" / "u<p>#n": parity of the pattern index
                    let digits: String = v.chars().skip_while(|c| !c.is_ascii_digit()).take_while(|c| c.is_ascii_digit()).collect();
                    let p: usize = digits.parse().unwrap_or(0);
                    match op {
                        Op::RetainEven => p % 2 == 0,
                        Op::RetainOdd => p % 2 == 1,
                        _ => false,
                    }
                };
                match &mut tree {
                    Tree::Multi(t) => t.retain(&|_, v: &mut String| keep(v)),
                    Tree::Unique(t) => t.retain(&|_, v: &mut String| keep(v)),
                }
                live.retain(|_, v| keep(v));
            }
            Op::Cache(limit, level) => {
                tree.cache(*limit, *level);
            }
        }
        State { tree, live, versions, history }
    }
}

impl<'a> Explorable for Model<'a> {
    type State = State;
    type Action = Op;

    fn init(&self) -> Vec<State> {
        let tree = if self.cfg.unique {
            Tree::Unique(UniqueRegexTreeMap::new(self.cfg.ignore_case))
        } else {
            Tree::Multi(RegexTreeMap::new(self.cfg.ignore_case))
        };
        let mut s = State { tree, live: BTreeMap::new(), versions: BTreeMap::new(), history: Vec::new() };
        for p in 0..self.cfg.prefill.min(self.cfg.patterns.len()) {
            s = self.apply(&s, &Op::Insert(p, 0));
        }
        // (the prefill inserts stay in the history: a replay starts from the empty tree)
        vec![s]
    }

    fn key(&self, s: &State) -> String {
        format!("{:?}|{:?}", s.tree.snapshot(), s.live)
    }

    fn actions(&self, s: &State) -> Vec<Op> {
        let mut ops = Vec::new();
        let variants = if self.cfg.second_ids && !self.cfg.unique { 2 } else { 1 };
        for p in 0..self.cfg.patterns.len() {
            for v in 0..variants {
                // second ids only on the first three patterns (keeps branching small, still shares leaves)
                if v == 1 && p >= 3 {
                    continue;
                }
                // re-insertion of a live (pattern, id) is allowed once per history (value replacement)
                let n = s.versions.get(&(p, v)).copied().unwrap_or(0);
                let id = id_of(&self.cfg, p, v);
                if self.cfg.insert_only {
                    if !s.live.contains_key(&(p, id)) {
                        ops.push(Op::Insert(p, v));
                    }
                    continue;
                }
                if !s.live.contains_key(&(p, id.clone())) || n < 2 {
                    ops.push(Op::Insert(p, v));
                }
                if s.live.contains_key(&(p, id)) {
                    ops.push(Op::Remove(p, v));
                }
            }
        }
        if self.cfg.insert_only {
            return ops;
        }
        ops.push(Op::RemoveAbsent);
        if !s.live.is_empty() {
            ops.push(Op::RetainEven);
            ops.push(Op::RetainOdd);
            ops.push(Op::RetainNone);
        }
        if self.cfg.cache_ops {
            ops.push(Op::Cache(8, None));
            ops.push(Op::Cache(1, None));
            ops.push(Op::Cache(1, Some(0)));
            ops.push(Op::Cache(2, Some(1)));
        }
        ops
    }

    fn step(&self, s: &State, a: &Op) -> Option<State> {
        Some(self.apply(s, a))
    }

    fn check_state(&self, s: &State, _depth: usize) {
        self.check(s);
    }

    fn case_of(&self, s: &State, a: Option<&Op>) -> Value {
        let mut history = s.history.clone();
        if let Some(a) = a {
            history.push(a.clone());
        }
        let mut c = self.case(&history);
        c["watch_label"] = json!(format!("{}:{}", self.cfg.set, a.map(|a| format!("{a:?}")).unwrap_or_else(|| "observe".into()).split('(').next().unwrap_or("")));
        c
    }

    fn report_panic(&self, s: &State, a: Option<&Op>, location: &str, message: &str) {
        let mut history = s.history.clone();
        if let Some(a) = a {
            history.push(a.clone());
        }
        self.ctx.report(Violation {
            signature: format!("panic:{location}"),
            what: format!("the tree panicked at {location}: {message} (set {}, last operation {a:?})", self.cfg.set),
            case: self.case(&history),
            weight: history.len() as u64,
        });
    }
}

fn configs(tier: Tier) -> Vec<(Config, usize)> {
    let main_n = tier.pick(8, MAIN_PATTERNS.len());
    let main: Vec<String> = MAIN_PATTERNS[..main_n].iter().map(|s| s.to_string()).collect();
    let class: Vec<String> = CLASS_PATTERNS.iter().map(|s| s.to_string()).collect();
    let edge: Vec<String> = EDGE_PATTERNS.iter().map(|s| s.to_string()).collect();
    let mut out = Vec::new();
    for ignore_case in [false, true] {
        out.push((
            Config { set: "edge".into(), patterns: edge.clone(), unique: false, ignore_case, second_ids: false, cache_ops: false, insert_only: false, prefill: 0 },
            tier.pick(4, 5),
        ));
        out.push((
            Config { set: "main".into(), patterns: main.clone(), unique: false, ignore_case, second_ids: true, cache_ops: true, insert_only: false, prefill: 0 },
            tier.pick(4, 5),
        ));
        out.push((
            Config { set: "main-unique".into(), patterns: main.clone(), unique: true, ignore_case, second_ids: false, cache_ops: true, insert_only: false, prefill: 0 },
            tier.pick(4, 6),
        ));
        out.push((
            Config { set: "paren-inside-class".into(), patterns: class.clone(), unique: false, ignore_case, second_ids: false, cache_ops: false, insert_only: false, prefill: 0 },
            tier.pick(4, 5),
        ));
    }
    for ignore_case in [false, true] {
        out.push((
            Config { set: "nested".into(), patterns: NESTED_PATTERNS.iter().map(|s| s.to_string()).collect(), unique: ignore_case, ignore_case: false, second_ids: false, cache_ops: false, insert_only: true, prefill: 0 },
            tier.pick(6, 7),
        ));
        out.push((
            Config { set: "case-folding".into(), patterns: FOLD_PATTERNS.iter().map(|s| s.to_string()).collect(), unique: false, ignore_case, second_ids: false, cache_ops: true, insert_only: false, prefill: 0 },
            tier.pick(3, 4),
        ));
    }
    // a node with 11 children from the start (count thresholds on siblings), then every history of removals / retains / warm-ups / re-inserts
    for ignore_case in [false, true] {
        out.push((
            Config { set: "wide".into(), patterns: (0..11).map(|i| format!(r"/w/(?:[a-z]+)/c{i}")).collect(), unique: false, ignore_case, second_ids: false, cache_ops: true, insert_only: false, prefill: 11 },
            tier.pick(3, 4),
        ));
    }
    // a node with 10 children that all BEGIN with a group (the character after the node prefix is '(' for every child): prefilled,
    // then every history incl. storing an existing (pattern, id) again
    for ignore_case in [false, true] {
        out.push((
            Config { set: "wide-markers".into(), patterns: (1..=10).map(|i| format!(r"/s/(?:[a-z]{{{i}}})/p")).collect(), unique: false, ignore_case, second_ids: false, cache_ops: true, insert_only: false, prefill: 10 },
            tier.pick(2, 3),
        ));
        out.push((
            Config { set: "class-escapes".into(), patterns: CLASS_ESCAPE_PATTERNS.iter().map(|s| s.to_string()).collect(), unique: false, ignore_case, second_ids: false, cache_ops: true, insert_only: false, prefill: 0 },
            tier.pick(3, 4),
        ));
    }
    // an expression whose compiled program is megabytes large (a set of its own: building it costs milliseconds per lookup)
    out.push((
        Config { set: "heavy".into(), patterns: vec![r"/h/(?:[\p{L}\p{N}\-]{1,60})".to_string(), r"/h/(?:[0-9]+)/x".to_string()], unique: false, ignore_case: false, second_ids: false, cache_ops: true, insert_only: false, prefill: 0 },
        2,
    ));
    if tier == Tier::Thorough {
        // deeper, insert/remove only (no cache flags in the state): all insertion orders of every <=6-subset
        let small: Vec<String> = MAIN_PATTERNS[..8].iter().map(|s| s.to_string()).collect();
        out.push((
            Config { set: "main-deep".into(), patterns: small, unique: false, ignore_case: false, second_ids: false, cache_ops: false, insert_only: false, prefill: 0 },
            7,
        ));
    }
    out
}

// ------------------------------------------------------------------------------------------------
// Twin-tree interleavings: two trees that differ ONLY in their case mode hold the same pattern and are
// driven by the same per-tree script (insert, find, warm-up, find). Every interleaving of the two scripts is
// executed on a thread of its own. The trees share nothing by contract, so every `find` must equal the
// linear scan of ITS tree whatever the other tree did before — unless the library keeps hidden state
// between calls (a per-thread or process-wide memo of built regexes, a shared pool of compiled ones).

/// all merges of two sequences of `n` steps each: a vector of 2n tree indices (0 / 1), n of each
pub fn interleavings(n: usize) -> Vec<Vec<usize>> {
    fn rec(a: usize, b: usize, cur: &mut Vec<usize>, out: &mut Vec<Vec<usize>>) {
        if a == 0 && b == 0 {
            out.push(cur.clone());
            return;
        }
        if a > 0 {
            cur.push(0);
            rec(a - 1, b, cur, out);
            cur.pop();
        }
        if b > 0 {
            cur.push(1);
            rec(a, b - 1, cur, out);
            cur.pop();
        }
    }
    let mut out = Vec::new();
    rec(n, n, &mut Vec::new(), &mut out);
    out
}

pub const TWIN_SCRIPT: [&str; 4] = ["insert", "find", "cache", "find"];

/// run one interleaving on the current thread; returns (signature, what) of every wrong answer
pub fn twin_run(pattern: &str, unique: bool, order: &[usize]) -> Vec<(String, String)> {
    let modes = [false, true];
    let mut trees: Vec<Tree> = modes.iter().map(|m| if unique { Tree::Unique(UniqueRegexTreeMap::new(*m)) } else { Tree::Multi(RegexTreeMap::new(*m)) }).collect();
    let refs: Vec<Option<regex::Regex>> = modes.iter().map(|m| RegexBuilder::new(&format!("^(?:{pattern})$")).case_insensitive(*m).build().ok()).collect();
    let mut pos = [0usize; 2];
    let mut out = Vec::new();
    for (step, &w) in order.iter().enumerate() {
        match TWIN_SCRIPT[pos[w]] {
            "insert" => match &mut trees[w] {
                Tree::Multi(t) => t.insert(pattern, "id", "v".to_string()),
                Tree::Unique(t) => t.insert(pattern, "v".to_string()),
            },
            "cache" => {
                trees[w].cache(100, None);
            }
            _ => {
                for hay in HAYSTACKS {
                    let got = trees[w].find(hay);
                    let want: Vec<String> = if refs[w].as_ref().map(|r| r.is_match(hay)).unwrap_or(false) { vec!["v".to_string()] } else { vec![] };
                    if got != want {
                        out.push((
                            format!("twin-trees:find-depends-on-the-other-tree:pattern={pattern}"),
                            format!(
                                "two trees (ignore_case=false / true, unique={unique}) each holding {pattern:?}; per-tree script {TWIN_SCRIPT:?} interleaved as {order:?}: at step {step} find({hay:?}) on the ignore_case={} tree returned {got:?}, its own linear scan gives {want:?}",
                                modes[w]
                            ),
                        ));
                        return out;
                    }
                }
            }
        }
        pos[w] += 1;
    }
    out
}

pub fn twin_patterns() -> Vec<String> {
    let mut v: Vec<String> = MAIN_PATTERNS.iter().chain(EDGE_PATTERNS.iter()).map(|s| s.to_string()).collect();
    v.sort();
    v.dedup();
    v
}

/// (interleavings executed, find comparisons)
pub fn twin_pass(ctx: &Ctx) -> (u64, u64) {
    let patterns = twin_patterns();
    let orders = interleavings(TWIN_SCRIPT.len());
    let runs = AtomicU64::new(0);
    let work: Vec<(String, bool)> = patterns.iter().flat_map(|p| [(p.clone(), false), (p.clone(), true)]).collect();
    crate::common::par_range(ctx.threads, work.len(), |i| {
        let (pattern, unique) = &work[i];
        for order in &orders {
            // a thread of its own: per-thread state of the library starts empty for every interleaving
            let res = std::thread::scope(|s| s.spawn(|| crate::common::guarded(|| twin_run(pattern, *unique, order))).join());
            runs.fetch_add(1, Ordering::Relaxed);
            let found = match res {
                Ok(Ok(v)) => v,
                Ok(Err((loc, msg))) => vec![(format!("panic:{loc}"), format!("twin trees on {pattern:?} order {order:?}: {msg}"))],
                Err(_) => vec![],
            };
            for (sig, what) in found {
                ctx.report(Violation { signature: sig, what, case: json!({"twin": {"pattern": pattern, "unique": unique, "order": order}}), weight: 1 });
            }
        }
    });
    let r = runs.load(Ordering::Relaxed);
    (r, r * 2 * 2 * HAYSTACKS.len() as u64)
}

/// Re-execute a recorded history, evaluating every invariant at every prefix.
pub fn replay(prop: &'static str, case: &Value) -> Vec<String> {
    if let Some(t) = case.get("twin") {
        let pattern = t["pattern"].as_str().unwrap_or("").to_string();
        let unique = t["unique"].as_bool().unwrap_or(false);
        let order: Vec<usize> = serde_json::from_value(t["order"].clone()).unwrap_or_default();
        let res = std::thread::scope(|s| s.spawn(|| crate::common::guarded(|| twin_run(&pattern, unique, &order))).join());
        return match res {
            Ok(Ok(v)) => v.into_iter().map(|(s, _)| s).collect(),
            Ok(Err((loc, _))) => vec![format!("panic:{loc}")],
            Err(_) => vec![],
        };
    }
    let ctx = Ctx::new(prop, Tier::Quick, "model_checking");
    let cfg: Config = match serde_json::from_value(case["config"].clone()) {
        Ok(c) => c,
        Err(_) => return vec![],
    };
    let history: Vec<Op> = match serde_json::from_value(case["history"].clone()) {
        Ok(h) => h,
        Err(_) => return vec![],
    };
    let mut cfg = cfg;
    // the recorded history starts from the empty tree (prefill inserts are part of it)
    cfg.prefill = 0;
    let model = Model::new(&ctx, cfg, prop, prop == "C12");
    let mut s = model.init().pop().unwrap();
    model.check(&s);
    for op in &history {
        s = model.apply(&s, op);
        model.check(&s);
    }
    ctx_signatures(&ctx)
}

pub fn ctx_signatures(ctx: &Ctx) -> Vec<String> {
    ctx.signatures()
}

pub fn run(tier: Tier) -> i32 {
    let ctx = Ctx::new("C08", tier, "model_checking");
    let mut states = 0u64;
    let mut transitions = 0u64;
    let mut max_depth = 0usize;
    let mut per_config = Vec::new();
    let mut samples = Vec::new();
    let mut find_checks = 0u64;
    let mut nonempty = 0u64;
    let mut outcomes = 0usize;
    let mut tree_depth = 0u64;
    for (cfg, depth) in configs(tier) {
        let model = Model::new(&ctx, cfg.clone(), "C08", false);
        let st = explore(&ctx, &model, depth);
        states += st.states;
        transitions += st.transitions;
        max_depth = max_depth.max(st.max_depth);
        find_checks += model.find_checks.load(Ordering::Relaxed);
        nonempty += model.nonempty_finds.load(Ordering::Relaxed);
        outcomes += model.outcomes.len();
        tree_depth = tree_depth.max(model.max_tree_depth.load(Ordering::Relaxed));
        per_config.push(json!({
            "set": cfg.set, "unique": cfg.unique, "ignore_case": cfg.ignore_case, "patterns": cfg.patterns.len(),
            "history_depth_bound": depth, "completed_depth": st.completed_depth, "states": st.states, "transitions": st.transitions,
            "states_per_depth": st.states_per_depth, "distinct_find_vectors": model.outcomes.len(),
        }));
        if samples.len() < 6 {
            samples.extend(model.samples.take().into_iter().rev().take(2));
        }
    }
    // engine cross-check on the first configuration: the merging BFS and an unmerged enumeration of every
    // history must reach the same number of distinct states
    let crosscheck = {
        let (cfg, _) = configs(tier).into_iter().next().unwrap();
        let quiet = Ctx::new("C08", tier, "model_checking");
        let model = Model::new(&quiet, cfg, "C08-crosscheck", false);
        let depth = 3;
        let bfs = explore(&quiet, &model, depth);
        // (a subject that panics makes the two enumerations incomparable: the panic itself is reported by the exploration above)
        let (histories, distinct) = match crate::common::guarded(|| crate::engines::bfs::enumerate_unmerged(&model, depth)) {
            Ok(r) if quiet.violation_count() == 0 => r,
            _ => (0, bfs.states),
        };
        if distinct != bfs.states {
            eprintln!("MACHINERY-ERROR: BFS with state merging reports {} states at depth {depth}, unmerged enumeration of {histories} histories reaches {distinct} distinct states", bfs.states);
            std::process::exit(2);
        }
        json!({"depth": depth, "histories_enumerated_without_merging": histories, "distinct_states": distinct, "bfs_states": bfs.states, "agree": true})
    };
    let (twin_runs, twin_finds) = twin_pass(&ctx);
    find_checks += twin_finds;
    let mut cov = Coverage::new();
    cov.set("engine_crosscheck", crosscheck);
    cov.set("twin_tree_interleavings", json!({"patterns": twin_patterns().len(), "script_per_tree": TWIN_SCRIPT, "interleavings_per_pattern_and_kind": interleavings(TWIN_SCRIPT.len()).len(), "executed": twin_runs, "find_comparisons": twin_finds,
        "what": "two trees differing only in ignore_case, same pattern, every interleaving of the two per-tree scripts on a thread of its own; each find must equal the linear scan of its own tree"}));
    cov.set("states", json!(states))
        .set("transitions", json!(transitions))
        .set("traces_validated_against_impl", json!(transitions))
        .set("max_depth", json!(max_depth))
        .set("samples", json!(samples))
        .set("evaluations", json!(find_checks))
        .set("distinct_nontrivial", json!(outcomes))
        .set("rule", json!("evaluations = find() comparisons (state x haystack); distinct_nontrivial = distinct vectors of find results over the haystacks, summed over configurations; non-empty expected finds counted separately"))
        .set("nonempty_expected_finds", json!(nonempty))
        .set("max_tree_depth_seen", json!(tree_depth))
        .set("haystacks", json!(HAYSTACKS.len()))
        .set("per_config", json!(per_config))
        .set("exhaustive", json!(true))
        .set("bound", json!("all histories of <= depth operations over the listed op alphabet per configuration (BFS, state = real tree keyed by structural snapshot + reference map)"));
    cov.assume("the regex crate is the oracle for '^(?:p)$' matching")
        .assume("patterns are of the RuleRegex shape; ids are unique per pattern (the contract Router relies on)")
        .assume("state merging uses a 128-bit fingerprint of the canonical snapshot");
    finish(&ctx, cov, &|case| replay("C08", case))
}
