//! C05 — the computed action reflects exactly the matched rules, in priority order.
//!
//! Engine E4: exhaustive product of rule lists over the effect alphabet (condition x control x payload)
//! x rank patterns x sampling override x response codes; oracle: the declarative reference fold.

use crate::common::{finish, par_range, Coverage, Ctx, DistinctSet, Samples, Tier, Violation};
use crate::effects::*;
use redirectionio::action::Action;
use redirectionio::api::Rule;
use redirectionio::router::Router;
use redirectionio::RouterConfig;
use serde_json::{json, Value};

#[derive(Clone, Debug, serde::Serialize, serde::Deserialize)]
pub struct Case {
    pub shapes: Vec<Shape>,
    pub rank_pattern: usize,
    pub sampling_override: Option<bool>,
    pub via_router: bool,
    pub rotation: usize,
}

pub fn build(case: &Case) -> (Vec<(String, u16, Shape)>, Vec<Rule>) {
    let mut spec = Vec::new();
    let mut rules = Vec::new();
    for (i, s) in case.shapes.iter().enumerate() {
        // long lists (count thresholds): generated ids, ranks distinct (pattern 0), tied (1) or ascending
        let (id, rank) = if case.shapes.len() > IDS.len() {
            // ids mixing numeric and non-numeric strings ("7", "49", "5b" ...): ids are compared as strings
            (if i % 3 == 0 { format!("{}", i + 3) } else if i % 3 == 1 { format!("{}b", i + 3) } else { format!("n{i:03}") }, match case.rank_pattern { 0 => 1000 - i as u16, 1 => 5, _ => 1 + i as u16 })
        } else {
            (IDS[i].to_string(), rank_of(case.rank_pattern, i))
        };
        spec.push((id.clone(), rank, *s));
        rules.push(s.to_rule(&id, rank, "/p"));
    }
    (spec, rules)
}

/// many matched rules at once: 70 / 130 / 260 rules cycling through a few simple shapes, with one reset / stop / sampled-out rule
/// at a varying position
pub fn long_lists() -> Vec<Vec<Shape>> {
    use Cond::*;
    use Control::*;
    use Payload::*;
    let cycle = [
        Shape { cond: None, control: Plain, payload: HeaderAdd },
        Shape { cond: Include404, control: Plain, payload: BodyAppend },
        Shape { cond: None, control: Plain, payload: Redirect301 },
        Shape { cond: Exclude404, control: Plain, payload: HeaderOverrideShared },
        Shape { cond: None, control: Plain, payload: LogFalse },
        Shape { cond: Include404_500, control: Plain, payload: Status404 },
    ];
    let mut out = Vec::new();
    for n in [70usize, 130, 260] {
        let base: Vec<Shape> = (0..n).map(|i| cycle[i % cycle.len()]).collect();
        out.push(base.clone());
        for (pos, control) in [(n / 2, Reset), (n / 3, Stop), (n - 1, ResetSampling0), (65, Reset), (128.min(n - 1), Stop)] {
            let mut l = base.clone();
            l[pos.min(n - 1)].control = control;
            out.push(l);
        }
    }
    out
}

/// the same action built with a unit trace (the entry the explain / impact / test-example analyses use)
pub fn traced_action_for(case: &Case, rules: &[Rule], rc: &RouterConfig) -> Action {
    let req = request_for(rc, "/p", case.sampling_override);
    let mut routes = routes_of(rules, rc);
    if !routes.is_empty() {
        let k = case.rotation % routes.len();
        routes.rotate_left(k);
    }
    let mut trace = redirectionio::action::UnitTrace::default();
    Action::from_routes_rule(routes, &req, Some(&mut trace))
}

pub fn action_for(case: &Case, rules: &[Rule], rc: &RouterConfig) -> Action {
    let req = request_for(rc, "/p", case.sampling_override);
    if case.via_router {
        let mut router = Router::<Rule>::from_config(rc.clone());
        for r in rules {
            router.insert(r.clone());
        }
        let routes = router.match_request(&req);
        Action::from_routes_rule(routes, &req, None)
    } else {
        let mut routes = routes_of(rules, rc);
        if !routes.is_empty() {
            let k = case.rotation % routes.len();
            routes.rotate_left(k);
        }
        Action::from_routes_rule(routes, &req, None)
    }
}

/// (signature, what) of every disagreement for this case
pub fn check_case(case: &Case, rc: &RouterConfig) -> Vec<(String, String)> {
    let (spec, rules) = build(case);
    let action = action_for(case, &rules, rc);
    let mut out = Vec::new();
    let feature_names = |case: &Case| {
        let mut controls: Vec<String> = case.shapes.iter().map(|s| format!("{:?}", s.control)).collect();
        controls.sort();
        controls.dedup();
        let mut conds: Vec<String> = case.shapes.iter().map(|s| format!("{:?}", s.cond)).collect();
        conds.sort();
        conds.dedup();
        (controls.join("+"), conds.join("+"))
    };
    // handing a unit trace to the builder must give the very same action
    let traced = traced_action_for(case, &rules, rc);
    if serde_json::to_string(&traced).ok() != serde_json::to_string(&action).ok() {
        let (controls, conds) = feature_names(case);
        out.push((
            format!("action-built-with-unit-trace-differs:controls={controls}:conds={conds}"),
            format!("rules {:?} (rank pattern {}, sampling override {:?}): from_routes_rule(.., Some(trace)) = {} / from_routes_rule(.., None) = {}", spec, case.rank_pattern, case.sampling_override, serde_json::to_string(&traced).unwrap_or_default(), serde_json::to_string(&action).unwrap_or_default()),
        ));
    }
    // the same Action object used for one response code and then asked about another one (what was applied for the first code
    // stays recorded in the action, it must not leak into the decision for the second)
    for (c1, c2) in [(404u16, 200u16), (200, 404), (500, 0), (0, 404)] {
        let mut a = action.clone();
        a.get_status_code(c1, None);
        let _ = a.create_filter_body(c1, &[]);
        a.should_log_request(true, c1, None);
        let hdrs: Vec<redirectionio::http::Header> = base_headers().into_iter().map(|(name, value)| redirectionio::http::Header { name, value }).collect();
        let got_h: Vec<(String, String)> = a.filter_headers(hdrs, c2, false, None).into_iter().map(|h| (h.name, h.value)).collect();
        let status2 = a.get_status_code(c2, None);
        let want2 = reference_obs(&spec, case.sampling_override, c2);
        if got_h != want2.headers || status2 != want2.status {
            let (controls, conds) = feature_names(case);
            out.push((
                format!("after-another-code:{}:controls={controls}:conds={conds}", if got_h != want2.headers { "headers" } else { "status" }),
                format!("rules {:?} (rank pattern {}, sampling override {:?}): the action was first used for code {c1}, then filter_headers / get_status_code for code {c2} give {got_h:?} / {status2}, reference {:?} / {}", spec, case.rank_pattern, case.sampling_override, want2.headers, want2.status),
            ));
            break;
        }
    }
    for c in CODES {
        let got = observe_action(&action, c);
        let want = reference_obs(&spec, case.sampling_override, c);
        // the entry the explain / impact analyses use: status for a response code with an assumed backend code (200) when the
        // request-time phase decides nothing
        {
            let mut a = action.clone();
            let mut t = redirectionio::action::UnitTrace::default();
            let got_f = a.get_final_status_code_with_fallback(c, 200, &mut t);
            let want_f = if c == 0 && want.status == 0 { (reference_obs(&spec, case.sampling_override, 200).status, 200) } else { (want.status, c) };
            if got_f != want_f {
                let (controls, conds) = feature_names(case);
                out.push((
                    format!("final-status-with-fallback:controls={controls}:conds={conds}"),
                    format!("rules {:?} (rank pattern {}, sampling override {:?}): get_final_status_code_with_fallback({c}, 200) = {got_f:?}, reference {want_f:?}", spec, case.rank_pattern, case.sampling_override),
                ));
            }
        }
        let (got_traced, traced_ids) = observe_action_traced(&traced, c);
        if got_traced != want || traced_ids != want.applied {
            let field = if got_traced != want { diff_field(&got_traced, &want) } else { "trace-rule-ids" };
            let (controls, conds) = feature_names(case);
            out.push((
                format!("with-unit-trace:{field}:controls={controls}:conds={conds}"),
                format!(
                    "rules {:?} (rank pattern {}, sampling override {:?}, code {c}), every call given a UnitTrace: implementation {:?} trace ids {:?} / reference {:?}",
                    spec, case.rank_pattern, case.sampling_override, got_traced, traced_ids, want
                ),
            ));
        }
        if got != want {
            let field = diff_field(&got, &want);
            // name the feature combination: controls and conditions present in the list
            let mut controls: Vec<String> = case.shapes.iter().map(|s| format!("{:?}", s.control)).collect();
            controls.sort();
            controls.dedup();
            let mut conds: Vec<String> = case.shapes.iter().map(|s| format!("{:?}", s.cond)).collect();
            conds.sort();
            conds.dedup();
            out.push((
                format!("{field}:controls={}:conds={}", controls.join("+"), conds.join("+")),
                format!(
                    "rules {:?} (rank pattern {}, sampling override {:?}, code {c}): implementation {:?} / reference {:?}",
                    spec, case.rank_pattern, case.sampling_override, got, want
                ),
            ));
        }
    }
    out.sort();
    out.dedup_by(|a, b| a.0 == b.0);
    out
}

pub fn replay(case: &Value) -> Vec<String> {
    let case: Case = match serde_json::from_value(case.clone()) {
        Ok(c) => c,
        Err(_) => return vec![],
    };
    check_case(&case, &RouterConfig::default()).into_iter().map(|(s, _)| s).collect()
}

pub fn lists(shapes: &[Shape], len: usize) -> Vec<Vec<Shape>> {
    let mut out: Vec<Vec<Shape>> = vec![vec![]];
    for _ in 0..len {
        let mut next = Vec::new();
        for l in &out {
            for s in shapes {
                let mut n = l.clone();
                n.push(*s);
                next.push(n);
            }
        }
        out = next;
    }
    out
}

pub fn run(tier: Tier) -> i32 {
    let ctx = Ctx::new("C05", tier, "exploration");
    let rc = RouterConfig::default();
    let all = all_shapes();
    let core = core_shapes();
    let mut work: Vec<Vec<Shape>> = Vec::new();
    work.push(vec![]);
    work.extend(lists(&all, 1));
    work.extend(lists(&all, 2));
    match tier {
        Tier::Quick => work.extend(lists(&core, 3)),
        Tier::Thorough => {
            // all triples with at least two members in the core (every shape meets every pair of core shapes in every
            // position); the full cube over the 384 shapes would be 56 M lists
            for a in &all {
                for b in &core {
                    for c in &core {
                        work.push(vec![*a, *b, *c]);
                        if !core.contains(a) {
                            work.push(vec![*b, *a, *c]);
                            work.push(vec![*b, *c, *a]);
                        }
                    }
                }
            }
            let small: Vec<Shape> = core.iter().copied().step_by(2).collect();
            work.extend(lists(&small, 4));
        }
    }
    work.extend(long_lists());
    let outcomes = DistinctSet::new();
    let nontrivial = DistinctSet::new();
    let samples = Samples::new(6);
    par_range(ctx.threads, work.len(), |i| {
        if i % 256 == 0 && ctx.over_budget() {
            ctx.set_capped(format!("wall budget {}s", ctx.budget_s()));
        }
        if ctx.capped.lock().unwrap().is_some() {
            return;
        }
        let shapes = &work[i];
        // (for two rules "first two tied" is "all tied")
        let rank_patterns: &[usize] = if shapes.len() <= 1 { &[0] } else if shapes.len() == 2 || shapes.len() > 5 { &[0, 1, 3] } else { &[0, 1, 2, 3] };
        for &rank_pattern in rank_patterns {
            for sampling_override in OVERRIDES {
                let via_router = (i + rank_pattern) % 64 == 0;
                let case = Case { shapes: shapes.clone(), rank_pattern, sampling_override, via_router, rotation: (i + ctx.seed as usize) % 4 };
                ctx.eval(CODES.len() as u64);
                for (sig, what) in crate::common::run_case(|| serde_json::to_value(&case).unwrap(), || check_case(&case, &rc)) {
                    ctx.report(Violation { signature: sig, what, case: serde_json::to_value(&case).unwrap(), weight: shapes.len() as u64 });
                }
                if i % 37 == 0 {
                    let (spec, _) = build(&case);
                    for c in CODES {
                        let o = reference_obs(&spec, sampling_override, c);
                        if outcomes.insert_str(&format!("{o:?}")) {
                            samples.offer(|| json!({"rules": format!("{spec:?}"), "override": sampling_override, "code": c, "expected": format!("{o:?}")}));
                        }
                        if o.status != 0 || o.headers != base_headers() || o.body != PROBE_BODY {
                            nontrivial.insert_str(&format!("{spec:?}{sampling_override:?}{c}"));
                        }
                    }
                }
            }
        }
    });
    let mut cov = Coverage::new();
    cov.set("distinct_nontrivial", json!(nontrivial.len()))
        .set("rule", json!("evaluations = (rule list, rank pattern, sampling override, response code) tuples compared with the reference on status, headers, body, log decision, applied ids and rule-ids header; distinct_nontrivial = distinct tuples (counted on a 1-in-37 stride of the lists) whose expected effect is not the identity"))
        .set("rule_lists", json!(work.len()))
        .set("shapes", json!({"all": all.len(), "core": core.len()}))
        .set("distinct_expected_observations_on_stride", json!(outcomes.len()))
        .set("samples", json!(samples.take()))
        .set("exhaustive", json!(true))
        .set("bound", json!(match tier {
            Tier::Quick => "all lists of <=2 rules over the 384 shapes (4 conditions x 12 controls x 8 payloads) and all lists of 3 over the 47-shape core; 4 rank patterns x 3 overrides x 4 codes; each case also with a unit trace",
            Tier::Thorough => "all lists of <=2 rules over the 384 shapes, all lists of 3 with at least two members in the 47-shape core, all lists of 4 over a 24-shape core; 4 rank patterns x 3 overrides x 4 codes; each case also with a unit trace",
        }));
    cov.assume("sampling rates other than 0/100 depend on a random draw and are outside the alphabet (the statement only fixes 0, 100 and the override)")
        .assume("routes are handed to Action::from_routes_rule in a rotated (unsorted) order; a 1-in-64 stride goes through a real Router");
    finish(&ctx, cov, &replay)
}
