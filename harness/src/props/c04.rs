//! C04 — body filters never lose, duplicate or reorder response bytes.
//!
//! Engine E3 + byte faults: for every (body, filter list, headers) — bodies include malformed,
//! truncated-at-every-byte and non-UTF-8 (one fault byte at every position) documents — every chunk
//! partition is explored and the conservation relation of the statement is checked on every reachable
//! end-of-stream output.

use crate::common::{finish, par_range, Coverage, Ctx, Samples, Tier, Violation};
use crate::corpus::{curated_bodies, filter_lists, grammar_bodies, S1, S2};
use crate::engines::chunk::{explore, FilterSpec};
use crate::props::c03::Headers;
use serde_json::{json, Value};
use std::sync::atomic::{AtomicU64, Ordering};

fn strip_values(out: &[u8], values: &[&str]) -> Vec<u8> {
    let mut cur = out.to_vec();
    for v in values {
        let vb = v.as_bytes();
        if vb.is_empty() {
            continue;
        }
        let mut res = Vec::with_capacity(cur.len());
        let mut i = 0;
        while i < cur.len() {
            if cur[i..].starts_with(vb) {
                i += vb.len();
            } else {
                res.push(cur[i]);
                i += 1;
            }
        }
        cur = res;
    }
    cur
}

/// is `s` obtainable from `b` by deleting disjoint substrings that each start with '<' and end with '>'?
pub fn is_span_deletion(s: &[u8], b: &[u8]) -> bool {
    // reach[i][j]: s[..i] produced from b[..j]
    let n = s.len();
    let m = b.len();
    let mut reach = vec![vec![false; m + 1]; n + 1];
    reach[0][0] = true;
    for j in 0..=m {
        for i in 0..=n {
            if !reach[i][j] {
                continue;
            }
            if i < n && j < m && s[i] == b[j] {
                reach[i + 1][j + 1] = true;
            }
            if j < m && b[j] == b'<' {
                for k in j + 1..m {
                    if b[k] == b'>' {
                        reach[i][k + 1] = true;
                    }
                }
            }
        }
    }
    reach[n][m]
}

#[derive(PartialEq, Eq, Debug, Clone, Copy)]
pub enum Relation {
    Passthrough,
    InsertOnly,
    Replace,
}

fn contains_tag(body: &[u8], tag: &str) -> bool {
    // does `<tag` occur (case-insensitively) followed by a non-name character?
    let lower: Vec<u8> = body.iter().map(|b| b.to_ascii_lowercase()).collect();
    let needle = format!("<{}", tag.to_lowercase());
    let nb = needle.as_bytes();
    if lower.len() < nb.len() {
        return false;
    }
    for i in 0..=lower.len() - nb.len() {
        if &lower[i..i + nb.len()] == nb {
            return true;
        }
    }
    false
}

pub fn relation_for(body: &[u8], filters: &[FilterSpec], headers: &Headers) -> Relation {
    let html_allowed = match headers.iter().find(|(n, _)| n.to_lowercase() == "content-type") {
        None => true,
        Some((_, v)) => v.to_lowercase().contains("text/html"),
    };
    let unsupported_encoding = headers
        .iter()
        .any(|(n, v)| n.to_lowercase() == "content-encoding" && !["gzip", "deflate", "br"].contains(&v.to_lowercase().as_str()));
    if unsupported_encoding {
        return Relation::Passthrough;
    }
    let mut any_active = false;
    let mut any_replace = false;
    for f in filters {
        match f {
            FilterSpec::Html { action, path, .. } => {
                let buildable = !path.is_empty() && ["append_child", "prepend_child", "replace"].contains(&action.as_str());
                if !buildable || !html_allowed {
                    continue;
                }
                if !contains_tag(body, &path[0]) {
                    continue;
                }
                any_active = true;
                if action == "replace" {
                    any_replace = true;
                }
            }
            FilterSpec::Text { action, .. } => {
                if ["append_text", "prepend_text"].contains(&action.as_str()) {
                    any_active = true;
                }
            }
        }
    }
    if !any_active {
        Relation::Passthrough
    } else if any_replace {
        Relation::Replace
    } else {
        Relation::InsertOnly
    }
}

pub fn check_output(body: &[u8], relation: Relation, out: &[u8]) -> Option<(&'static str, String)> {
    let stripped = strip_values(out, &[S1, S2]);
    match relation {
        Relation::Passthrough => {
            if out != body {
                return Some(("passthrough-changed", "no filter applies, yet the output differs from the input".into()));
            }
        }
        Relation::InsertOnly => {
            if stripped != body {
                return Some(("insert-only-not-conserved", "output minus the inserted values differs from the input".into()));
            }
        }
        Relation::Replace => {
            if !is_span_deletion(&stripped, body) {
                return Some(("replace-not-span-deletion", "output minus the values is not the input minus '<...>' spans".into()));
            }
        }
    }
    None
}

pub fn check_case(body: &[u8], filters: &[FilterSpec], headers: &Headers, stats: Option<(&AtomicU64, &AtomicU64)>) -> Vec<(String, String, Vec<usize>)> {
    let relation = relation_for(body, filters, headers);
    let ex = explore(body, filters, headers, true, true);
    if let Some((s, t)) = stats {
        s.fetch_add(ex.states, Ordering::Relaxed);
        t.fetch_add(ex.transitions, Ordering::Relaxed);
    }
    let class = if std::str::from_utf8(body).is_ok() { "valid-utf8-input" } else { "invalid-utf8-input" };
    let mut res: Vec<(String, String, Vec<usize>)> = Vec::new();
    if ex.capped && ex.finals.values().all(|_| true) && ex.finals.iter().all(|(out, _)| check_output(body, relation, out).is_none()) {
        res.push(("state-explosion".to_string(), format!("more than {} distinct filter states for one body: state merging no longer applies (opaque or diverging state); input {:?}", crate::engines::chunk::MAX_STATES_PER_CASE, String::from_utf8_lossy(body)), vec![]));
    }
    for (out, hist) in &ex.finals {
        if let Some((kind, why)) = check_output(body, relation, out) {
            let chunks = hist.iter().filter(|k| **k > 0).count();
            let mode = if chunks <= 1 { "single-chunk" } else { "chunked-only" };
            res.push((
                format!("{kind}:{class}:{mode}"),
                format!(
                    "{why}: input {:?} schedule {hist:?} output {:?}",
                    String::from_utf8_lossy(body),
                    String::from_utf8_lossy(out)
                ),
                hist.clone(),
            ));
        }
    }
    // if a single-chunk witness exists, the chunked-only ones of the same kind add nothing
    let has_single: Vec<String> = res.iter().filter(|(s, _, _)| s.ends_with(":single-chunk")).map(|(s, _, _)| s.replace(":single-chunk", "")).collect();
    res.retain(|(s, _, _)| !(s.ends_with(":chunked-only") && has_single.contains(&s.replace(":chunked-only", ""))));
    // keep the shortest witness per signature
    res.sort_by_key(|(s, _, h)| (s.clone(), h.len()));
    res.dedup_by(|a, b| a.0 == b.0);
    res
}

pub fn replay(case: &Value) -> Vec<String> {
    if let Some(r) = super::big::replay("C04", case) {
        return r;
    }
    let body: Vec<u8> = serde_json::from_value(case["body"].clone()).unwrap_or_default();
    let filters: Vec<FilterSpec> = serde_json::from_value(case["filters"].clone()).unwrap_or_default();
    let headers: Headers = serde_json::from_value(case["headers"].clone()).unwrap_or_default();
    match crate::common::guarded(|| check_case(&body, &filters, &headers, None)) {
        Ok(v) => v.into_iter().map(|(s, _, _)| s).collect(),
        Err((loc, _)) => vec![format!("panic:{loc}")],
    }
}

pub struct Case {
    pub body: Vec<u8>,
    pub name: String,
    pub filters: Vec<FilterSpec>,
    pub headers: Headers,
}

pub fn cases(tier: Tier) -> Vec<Case> {
    // replace_text substitutes the whole body (the statement does not classify it): excluded here
    let fl: Vec<(&'static str, Vec<FilterSpec>)> = filter_lists()
        .into_iter()
        .filter(|(_, f)| !f.iter().any(|x| matches!(x, FilterSpec::Text { action, .. } if action == "replace_text")))
        .collect();
    let mut out = Vec::new();
    let curated = curated_bodies();
    for b in &curated {
        assert!(!b.contains(S1) && !b.contains(S2));
        for (name, f) in &fl {
            out.push(Case { body: b.clone().into_bytes(), name: name.to_string(), filters: f.clone(), headers: vec![] });
        }
    }
    // not buildable / unsupported: must pass through
    let unbuildable: Vec<(&str, Vec<FilterSpec>, Headers)> = vec![
        ("no-filter", vec![], vec![]),
        ("unknown-action", vec![FilterSpec::html("frobnicate", &["div"], None, S1)], vec![]),
        ("empty-path", vec![FilterSpec::html("replace", &[], None, S1)], vec![]),
        ("non-html-content-type", vec![FilterSpec::html("replace", &["div"], None, S1)], vec![("Content-Type".into(), "application/json".into())]),
        (
            "unsupported-encoding",
            vec![FilterSpec::html("replace", &["div"], None, S1), FilterSpec::text("append_text", S2)],
            vec![("Content-Encoding".into(), "zstd".into())],
        ),
        ("path-not-in-body", vec![FilterSpec::html("replace", &["section"], None, S1)], vec![]),
        ("html-upper-content-type", vec![FilterSpec::html("append_child", &["html", "body"], None, S1)], vec![("CONTENT-TYPE".into(), "TEXT/HTML".into())]),
    ];
    for b in &curated {
        for (name, f, h) in &unbuildable {
            out.push(Case { body: b.clone().into_bytes(), name: name.to_string(), filters: f.clone(), headers: h.clone() });
        }
    }
    // nothing buildable although the encoding is supported: the (compressed) body must pass through untouched
    for (enc_name, enc) in [("gzip", crate::props::c14::Enc::Gzip(0)), ("deflate", crate::props::c14::Enc::Zlib(1)), ("br", crate::props::c14::Enc::Brotli(0, 16))] {
        for b in curated.iter().take(3) {
            let stream = enc.encode(b.as_bytes());
            for (name, f) in [
                ("unbuildable+supported-encoding(non-html)", vec![FilterSpec::html("replace", &["div"], None, S1)]),
                ("unbuildable+supported-encoding(unknown-action)", vec![FilterSpec::html("frobnicate", &["div"], None, S1)]),
                ("unbuildable+supported-encoding(empty-path)", vec![FilterSpec::html("append_child", &[], None, S1)]),
            ] {
                let mut headers: Headers = vec![("Content-Encoding".into(), enc_name.to_string())];
                if name.contains("non-html") {
                    headers.push(("Content-Type".into(), "application/json".into()));
                }
                // short streams only: every partition is explored
                if stream.len() <= 160 {
                    out.push(Case { body: stream.clone(), name: name.to_string(), filters: f, headers });
                }
            }
        }
    }
    // byte faults and truncation at every byte
    let fault_bodies = tier.pick(5, curated.len());
    // index 10 = append[html,body]+replace[div]: two HTML stages that can both hold bytes
    let two_html = fl.iter().position(|(n, _)| *n == "append[html,body]+replace[div]").unwrap_or(0);
    let fault_filters: Vec<usize> = tier.pick(vec![0, 1, 3, two_html], (0..fl.len()).collect());
    for b in curated.iter().take(fault_bodies) {
        let bytes = b.as_bytes();
        for pos in 0..=bytes.len() {
            for fault in [0xFFu8, 0x80, 0xC3] {
                let mut fb = bytes[..pos].to_vec();
                fb.push(fault);
                fb.extend_from_slice(&bytes[pos..]);
                for fi in &fault_filters {
                    out.push(Case { body: fb.clone(), name: format!("{}+fault{:02x}@{}", fl[*fi].0, fault, pos), filters: fl[*fi].1.clone(), headers: vec![] });
                }
            }
            // truncation
            if pos < bytes.len() {
                for fi in &fault_filters {
                    out.push(Case { body: bytes[..pos].to_vec(), name: format!("{}+truncated@{}", fl[*fi].0, pos), filters: fl[*fi].1.clone(), headers: vec![] });
                }
            }
        }
    }
    let gl = tier.pick(2, 3);
    for b in grammar_bodies(gl) {
        for (name, f) in fl.iter().take(tier.pick(4, fl.len())) {
            out.push(Case { body: b.clone().into_bytes(), name: name.to_string(), filters: f.clone(), headers: vec![] });
        }
    }
    out
}

pub fn run(tier: Tier) -> i32 {
    let ctx = Ctx::new("C04", tier, "model_checking");
    let cases = cases(tier);
    let states = AtomicU64::new(0);
    let transitions = AtomicU64::new(0);
    let by_relation = [AtomicU64::new(0), AtomicU64::new(0), AtomicU64::new(0)];
    let invalid = AtomicU64::new(0);
    let done = AtomicU64::new(0);
    let samples = Samples::new(5);
    par_range(ctx.threads, cases.len(), |i| {
        if ctx.over_budget() {
            ctx.set_capped(format!("wall budget {}s", ctx.budget_s()));
            return;
        }
        let c = &cases[i];
        ctx.eval(1);
        done.fetch_add(1, Ordering::Relaxed);
        let rel = relation_for(&c.body, &c.filters, &c.headers);
        by_relation[rel as usize].fetch_add(1, Ordering::Relaxed);
        if std::str::from_utf8(&c.body).is_err() {
            invalid.fetch_add(1, Ordering::Relaxed);
        }
        let case_json = || json!({"body": c.body, "body_text": String::from_utf8_lossy(&c.body), "filters": c.filters, "headers": c.headers, "schedule": [c.body.len()], "watch_label": "chunked-filtering"});
        let checked = match crate::common::watched(case_json, || crate::common::guarded(|| check_case(&c.body, &c.filters, &c.headers, Some((&states, &transitions))))) {
            Ok(v) => v,
            Err((loc, msg)) => vec![(format!("panic:{loc}"), format!("the filter chain panicked at {loc}: {msg}; body {:?}", String::from_utf8_lossy(&c.body)), vec![])],
        };
        for (sig, what, hist) in checked {
            if sig == "state-explosion" {
                // not a verdict: the exploration of this case is incomplete
                ctx.set_capped(what);
                continue;
            }
            ctx.report(Violation {
                signature: sig,
                what: format!("filters {}: {}", c.name, what),
                case: json!({"body": c.body, "body_text": String::from_utf8_lossy(&c.body), "filters": c.filters, "headers": c.headers, "schedule": hist}),
                weight: (hist.len() * 1000 + c.body.len()) as u64,
            });
        }
        if i % 2003 == 11 {
            samples.offer(|| json!({"body": String::from_utf8_lossy(&c.body), "filters": c.name, "relation": format!("{rel:?}")}));
        }
    });
    let (big_cases, big_schedules) = super::big::run(&ctx, "C04", tier == Tier::Thorough);
    let st = states.load(Ordering::Relaxed);
    let tr = transitions.load(Ordering::Relaxed);
    let mut cov = Coverage::new();
    cov.set("size_threshold_pass", json!({"cases": big_cases, "schedules_executed": big_schedules, "run_lengths": super::big::runs(tier == Tier::Thorough),
        "what": "generated documents with one long run inside one construct, every schedule of the family: output minus the inserted values == input (minus the replaced element)"}));
    cov.set("states", json!(st))
        .set("transitions", json!(tr))
        .set("traces_validated_against_impl", json!(tr))
        .set("samples", json!(samples.take()))
        .set("evaluations", json!(done.load(Ordering::Relaxed)))
        .set("distinct_nontrivial", json!(by_relation[1].load(Ordering::Relaxed) + by_relation[2].load(Ordering::Relaxed)))
        .set("rule", json!("one evaluation = one (body, filter list, headers) case with all its chunk partitions; non-trivial = a filter applies (insert-only or replace relation), pass-through cases counted separately"))
        .set("cases_by_relation", json!({"passthrough": by_relation[0].load(Ordering::Relaxed), "insert_only": by_relation[1].load(Ordering::Relaxed), "replace": by_relation[2].load(Ordering::Relaxed)}))
        .set("invalid_utf8_bodies", json!(invalid.load(Ordering::Relaxed)))
        .set("exhaustive", json!(true));
    cov.assume("sentinel insert values occur in no body (asserted)").assume("replace_text is outside the statement's three cases and is not checked here");
    finish(&ctx, cov, &replay)
}
