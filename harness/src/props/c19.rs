//! C19 — project-level analyses agree with the live pipeline and with full rebuilds.
//!
//! Engine E4: base rule sets x change-sets x examples x hop limits x project domains. The incremental
//! (project) entry points, run on an Arc-shared router plus a change-set, must give the same outputs as
//! the standalone entry points on the resulting rule list (in every order of that list); the reported
//! response must be the live pipeline's; the redirect-chain analysis must respect the hop limit and
//! report a loop exactly when a (URL, method) repeats; the shared router must be left untouched.

use crate::common::{finish, par_range, permutations, Coverage, Ctx, DistinctSet, Samples, Tier, Violation};
use crate::engines::router_mc::ids_of;
use redirectionio::action::Action;
use redirectionio::api::{
    Example, ExplainRequestInput, ExplainRequestOutput, ExplainRequestProjectInput, ImpactInput, ImpactOutput, ImpactProjectInput, Rule, TestExamplesInput, TestExamplesOutput,
    TestExamplesProjectInput, UnitIdsInput, UnitIdsOutput, UnitIdsProjectInput,
};
use redirectionio::http::Request;
use redirectionio::router::Router;
use redirectionio::RouterConfig;
use serde_json::{json, Value};
use std::collections::{BTreeSet, HashSet};
use std::sync::Arc;

const HOST: &str = "example.org";

fn ex(url: &str, must_match: bool, units: &[&str]) -> Value {
    json!({"url": url, "method": null, "headers": null, "ip_address": null, "response_status_code": null, "must_match": must_match, "unit_ids_applied": units})
}

fn rule(id: &str, rank: u16, path: &str, target: Option<&str>, status: Option<u16>, extra: Value, examples: Vec<Value>) -> Value {
    let mut r = json!({
        "id": id, "rank": rank,
        "source": {"scheme": null, "host": null, "ips": null, "path": path, "query": null, "headers": null, "methods": null, "exclude_methods": null,
                   "response_status_codes": null, "exclude_response_status_codes": null, "sampling": null},
        "target": target, "status_code": status, "markers": [], "variables": [], "body_filters": null, "header_filters": null, "log_override": null,
        "reset": null, "stop": null, "examples": examples, "redirect_unit_id": format!("ru-{id}"), "configuration_log_unit_id": null,
        "configuration_reset_unit_id": null, "target_hash": null
    });
    if let Value::Object(e) = extra {
        for (k, v) in e {
            if k == "source" {
                for (sk, sv) in v.as_object().unwrap() {
                    r["source"][sk] = sv.clone();
                }
            } else {
                r[&k] = v;
            }
        }
    }
    r
}

/// rule alphabet: (name, variants) — variant 0 is the base version, variant 1 the "updated" version (same id)
pub fn alphabet() -> Vec<Vec<Value>> {
    vec![
        vec![
            rule("ab", 10, "/a", Some("/b"), Some(301), json!({}), vec![ex("/a", true, &["ru-ab"]), ex("/zzz", false, &[])]),
            rule("ab", 10, "/a", Some("/c"), Some(302), json!({"source": {"methods": ["GET", "POST"]}}), vec![ex("/a", true, &["ru-ab"])]),
        ],
        vec![
            rule("bc", 9, "/b", Some("/c"), Some(302), json!({}), vec![ex("/b", true, &["ru-bc"])]),
            rule("bc", 9, "/b", Some("/a"), Some(302), json!({}), vec![ex("/b", true, &["ru-bc"]), ex("/b", false, &[])]),
        ],
        vec![
            rule("ss", 8, "/s", Some("/s"), Some(301), json!({}), vec![ex("/s", true, &["ru-ss"]), json!({"url": "/s", "method": "POST", "headers": null, "ip_address": null, "response_status_code": null, "must_match": true, "unit_ids_applied": ["ru-ss"]})]),
            rule("ss", 8, "/s", Some(&format!("https://{HOST}/s")), Some(308), json!({}), vec![ex(&format!("https://{HOST}/s"), true, &["ru-ss"])]),
        ],
        vec![
            rule("ba", 7, "/b", Some("/a"), Some(301), json!({}), vec![ex("/b", true, &["ru-ba"]), ex("http://[::1", true, &["ru-ba"])]),
            rule("ba", 11, "/b", Some("/a"), Some(307), json!({}), vec![ex("/b", true, &["ru-ba"])]),
        ],
        vec![
            rule("cd", 6, "/c", Some("/d"), Some(301), json!({"source": {"response_status_codes": [404]}}), vec![json!({"url": "/c", "method": null, "headers": null, "ip_address": null, "response_status_code": 404, "must_match": true, "unit_ids_applied": ["ru-cd"]}), ex("/c", true, &[])]),
            rule("cd", 6, "/c", Some("/a"), Some(301), json!({"source": {"response_status_codes": [404], "exclude_response_status_codes": true}}), vec![ex("/c", true, &["ru-cd"])]),
        ],
        vec![
            rule("hd", 5, "/a", None, None, json!({"header_filters": [{"action": "add", "header": "X-H", "value": "1", "id": "uh", "target_hash": "th"}]}), vec![ex("/a", true, &["uh"])]),
            rule("hd", 5, "/a", None, None, json!({"header_filters": [{"action": "override", "header": "Location", "value": "/s", "id": "uh2", "target_hash": "th"}]}), vec![ex("/a", true, &["uh2"])]),
        ],
        vec![
            rule("bd", 4, "/c", None, None, json!({"body_filters": [{"action": "append_child", "value": "<i>x</i>", "inner_value": null, "element_tree": ["html", "body"], "css_selector": null, "id": "ub", "target_hash": "tb"}]}), vec![ex("/c", true, &["ub"])]),
            rule("bd", 4, "/c", None, None, json!({"body_filters": [{"action": "replace_text", "content": "R", "id": "ub2", "target_hash": null}]}), vec![ex("/c", true, &["ub2"])]),
        ],
        // the other element edits (replace, prepend_child) and a text edit, on elements of the skeleton the analyses filter
        vec![
            rule("br", 5, "/p/x", None, None, json!({"body_filters": [{"action": "replace", "value": "<head><title>t</title></head>", "element_tree": ["html", "head"], "css_selector": null, "id": "ur", "target_hash": "tr"},
                                                                        {"action": "prepend_text", "content": "<!-- p -->", "id": "upt", "target_hash": null}]}), vec![ex("/p/x", true, &["ur", "upt"])]),
            rule("br", 5, "/p/x", None, None, json!({"body_filters": [{"action": "prepend_child", "value": "<b>y</b>", "inner_value": null, "element_tree": ["html", "body"], "css_selector": null, "id": "up", "target_hash": null},
                                                                        {"action": "replace", "value": "<body>z</body>", "element_tree": ["html", "body"], "css_selector": "", "id": "ur2", "target_hash": "tr2"}]}), vec![ex("/p/x", true, &["up", "ur2"])]),
        ],
        vec![
            rule("lg", 3, "/a", None, None, json!({"log_override": false, "configuration_log_unit_id": "ul"}), vec![ex("/a", true, &["ul"])]),
            rule("lg", 3, "/a", None, None, json!({"log_override": true, "configuration_log_unit_id": "ul", "reset": true, "configuration_reset_unit_id": "ur"}), vec![ex("/a", true, &["ul", "ur"])]),
        ],
        vec![
            rule("dy", 2, "/p/@m", Some("/q/@m"), Some(301), json!({"markers": [{"name": "m", "regex": "[a-z]+", "transformers": []}]}), vec![ex("/p/x", true, &["ru-dy"]), ex("/p/7", false, &[])]),
            rule("dy", 2, "/p/@m", Some("/p/@m"), Some(302), json!({"markers": [{"name": "m", "regex": "[a-z]+", "transformers": []}], "source": {"host": "@h.example.org"}}), vec![ex("https://www.example.org/p/x", true, &["ru-dy"])]),
        ],
        vec![
            rule("nn", 13, "/n", Some(&format!("https://EXAMPLE.org:443/x/../n")), Some(301), json!({}), vec![ex(&format!("https://{HOST}/n"), true, &["ru-nn"])]),
            rule("nn", 13, "/n", Some(&format!("HTTPS://{HOST}/./n")), Some(308), json!({"source": {"methods": ["GET", "POST"]}}), vec![ex("/n", true, &["ru-nn"])]),
        ],
        vec![
            rule("f4", 1, "/c", None, None, json!({"source": {"response_status_codes": [404]}, "header_filters": [{"action": "add", "header": "X-Robots-Tag", "value": "noindex", "id": "uf4", "target_hash": "tf4"}],
                 "body_filters": [{"action": "append_text", "content": "<!-- 404 -->", "id": "ub4", "target_hash": null}]}), vec![json!({"url": "/c", "method": null, "headers": null, "ip_address": null, "response_status_code": 404, "must_match": true, "unit_ids_applied": ["uf4", "ub4"]})]),
            rule("f4", 1, "/c", None, None, json!({"source": {"response_status_codes": [404], "exclude_response_status_codes": true}, "header_filters": [{"action": "add", "header": "X-Not-404", "value": "1", "id": "uf4", "target_hash": "tf4"}]}), vec![ex("/c", true, &["uf4"])]),
        ],
        // the only pattern rule of its bucket, with an upper-case literal: a change-set that updates it empties and refills the
        // path tree (explored under ignore_path_and_query_case as well)
        vec![
            rule("dc", 14, "/Shop/@m", Some("/s2/@m"), Some(301), json!({"markers": [{"name": "m", "regex": "[a-z]+", "transformers": []}]}), vec![ex("/Shop/x", true, &["ru-dc"]), ex("/shop/x", true, &["ru-dc"])]),
            rule("dc", 14, "/Shop/@m", Some("/s3/@m"), Some(302), json!({"markers": [{"name": "m", "regex": "[a-z]+", "transformers": []}]}), vec![ex("/Shop/x", true, &["ru-dc"])]),
        ],
        // a redirect decided by the BACKEND status (404) that leads back to its own URL: a loop that only exists in the backend phase
        vec![
            rule("kl", 15, "/k", Some("/k"), Some(302), json!({"source": {"response_status_codes": [404]}}), vec![json!({"url": "/k", "method": null, "headers": null, "ip_address": null, "response_status_code": 404, "must_match": true, "unit_ids_applied": ["ru-kl"]}), ex("/k", true, &[])]),
            rule("kl", 15, "/k", Some("/k2"), Some(302), json!({"source": {"response_status_codes": [404]}}), vec![json!({"url": "/k", "method": null, "headers": null, "ip_address": null, "response_status_code": 404, "must_match": true, "unit_ids_applied": ["ru-kl"]})]),
        ],
        // a redirect whose Location comes from a header filter that spells the name in lower / upper case (no target), back to itself
        vec![
            rule("ll", 16, "/l", None, Some(302), json!({"header_filters": [{"action": "override", "header": "location", "value": "/l", "id": "ull", "target_hash": null}]}), vec![ex("/l", true, &["ull"]), ex("/l", true, &["ull", "ru-ll"])]),
            rule("ll", 16, "/l", None, Some(307), json!({"header_filters": [{"action": "add", "header": "LOCATION", "value": "/a", "id": "ull", "target_hash": null}]}), vec![ex("/l", true, &["ull"]), ex("/l", true, &["ull", "ru-ll"])]),
        ],
        vec![
            rule("ab2", 12, "/x", Some("https://other.org/y"), Some(301), json!({}), vec![ex("/x", true, &["ru-ab2"])]),
            rule("ab2", 12, "/x", Some(&format!("https://{HOST}/a")), Some(302), json!({"stop": true}), vec![ex("/x", true, &["ru-ab2"])]),
        ],
    ]
}

#[derive(Clone, Debug, serde::Serialize, serde::Deserialize)]
pub struct Case {
    /// indices into alphabet(), base variant
    pub base: Vec<usize>,
    pub added: Vec<usize>,
    pub updated: Vec<usize>,
    pub deleted: Vec<usize>,
    pub max_hops: u8,
    pub with_domain: bool,
    pub example_url: String,
    pub example_code: Option<u16>,
    pub impact_action: String,
    #[serde(default)]
    pub example_method: Option<String>,
    /// RouterConfig.ignore_path_and_query_case
    #[serde(default)]
    pub ignore_case: bool,
    /// how the project's host is written everywhere (rule targets, examples, project domains):
    /// 0 = example.org, 1 = an IPv4 literal, 2 = an IPv6 literal
    #[serde(default)]
    pub host_kind: u8,
}

const HOST_SPELLINGS: [&str; 3] = [HOST, "192.168.10.20", "[2001:db8::1]"];

/// the same document with the project's host written as an address literal
fn rehost(v: &Value, kind: u8) -> Value {
    if kind == 0 {
        return v.clone();
    }
    serde_json::from_str(&v.to_string().replace(HOST, HOST_SPELLINGS[kind as usize])).expect("rehost")
}

thread_local! {
    static IGNORE_CASE: std::cell::Cell<bool> = const { std::cell::Cell::new(false) };
}

/// configuration of the case being checked on this thread (set at the top of check_case)
fn config() -> RouterConfig {
    let mut c = RouterConfig::default();
    c.ignore_path_and_query_case = IGNORE_CASE.with(|c| c.get());
    c
}

fn strip(v: &Value) -> Value {
    // drop match_traces (their shape depends on hash-map iteration order and on emptied buckets left by
    // removals; the statement does not list them) but keep the set of rules they contain
    fn collect_ids(v: &Value, out: &mut BTreeSet<String>) {
        match v {
            Value::Object(o) => {
                if let Some(Value::Array(routes)) = o.get("routes") {
                    for r in routes {
                        if let Some(id) = r.get("id").and_then(|x| x.as_str()) {
                            out.insert(id.to_string());
                        }
                    }
                }
                for x in o.values() {
                    collect_ids(x, out);
                }
            }
            Value::Array(a) => {
                for x in a {
                    collect_ids(x, out);
                }
            }
            _ => {}
        }
    }
    match v {
        Value::Object(o) => {
            let mut m = serde_json::Map::new();
            for (k, x) in o {
                if k == "unit_ids_seen" {
                    // a set: its order comes from hash-map iteration in squash_with_target_unit_traces
                    let mut items: Vec<String> = x.as_array().map(|a| a.iter().filter_map(|v| v.as_str().map(|s| s.to_string())).collect()).unwrap_or_default();
                    items.sort();
                    m.insert(k.clone(), json!(items));
                } else if k == "match_traces" {
                    let mut ids = BTreeSet::new();
                    collect_ids(x, &mut ids);
                    m.insert("match_traces_rule_ids".into(), json!(ids));
                } else {
                    m.insert(k.clone(), strip(x));
                }
            }
            Value::Object(m)
        }
        Value::Array(a) => Value::Array(a.iter().map(strip).collect()),
        other => other.clone(),
    }
}

fn first_diff(a: &Value, b: &Value, path: &str) -> String {
    match (a, b) {
        (Value::Object(x), Value::Object(y)) => {
            let keys: BTreeSet<&String> = x.keys().chain(y.keys()).collect();
            for k in keys {
                match (x.get(k), y.get(k)) {
                    (Some(p), Some(q)) => {
                        if p != q {
                            return first_diff(p, q, &format!("{path}/{k}"));
                        }
                    }
                    _ => return format!("{path}/{k}"),
                }
            }
            path.to_string()
        }
        (Value::Array(x), Value::Array(y)) => {
            if x.len() != y.len() {
                return format!("{path}(len)");
            }
            for (i, (p, q)) in x.iter().zip(y.iter()).enumerate() {
                if p != q {
                    return first_diff(p, q, &format!("{path}/{i}"));
                }
            }
            path.to_string()
        }
        _ => path.to_string(),
    }
}

/// generalise a JSON path to a field name (indices and rule ids removed)
fn field_of(path: &str) -> String {
    let ids: Vec<String> = alphabet().iter().map(|v| v[0]["id"].as_str().unwrap().to_string()).collect();
    path.split('/').filter(|p| !p.is_empty() && p.parse::<usize>().is_err() && !ids.contains(&p.to_string())).collect::<Vec<_>>().join("/")
}

struct Built {
    base_rules: Vec<Value>,
    change_set: Value,
    final_rules: Vec<Value>,
    domains: Vec<String>,
}

fn build(case: &Case) -> Built {
    let alpha = alphabet();
    let base_rules: Vec<Value> = case.base.iter().map(|i| rehost(&alpha[*i][0], case.host_kind)).collect();
    let added: Vec<Value> = case.added.iter().map(|i| rehost(&alpha[*i][0], case.host_kind)).collect();
    let updated: Vec<Value> = case.updated.iter().map(|i| rehost(&alpha[*i][1], case.host_kind)).collect();
    let deleted: Vec<String> = case.deleted.iter().map(|i| alpha[*i][0]["id"].as_str().unwrap().to_string()).collect();
    let mut final_rules: Vec<Value> = Vec::new();
    for r in &base_rules {
        let id = r["id"].as_str().unwrap();
        if deleted.iter().any(|d| d == id) || updated.iter().any(|u| u["id"] == r["id"]) {
            continue;
        }
        final_rules.push(r.clone());
    }
    final_rules.extend(updated.iter().cloned());
    final_rules.extend(added.iter().cloned());
    Built {
        base_rules,
        change_set: json!({"added": added, "updated": updated, "deleted": deleted}),
        final_rules,
        domains: if case.with_domain { vec![HOST_SPELLINGS[case.host_kind as usize].to_string()] } else { vec![] },
    }
}

fn router_of(rules: &[Value]) -> Router<Rule> {
    let mut r = Router::<Rule>::from_config(config());
    for v in rules {
        r.insert(serde_json::from_value::<Rule>(v.clone()).expect("rule"));
    }
    r
}

fn probe_answers(router: &Router<Rule>) -> Vec<Vec<String>> {
    let rc = config();
    ["/a", "/b", "/c", "/s", "/x", "/p/x", "/zzz", "/Shop/x", "/shop/x"]
        .iter()
        .map(|u| {
            let mut r = Request::from_config(&rc, u.to_string(), Some(HOST.to_string()), Some("https".into()), None, None, None);
            r.created_at = None;
            ids_of(&router.match_request(&r))
        })
        .collect()
}

/// the live pipeline in proxy order for one example
/// status decided before any backend response (0 = the backend is called)
fn request_time_status(router: &Router<Rule>, example: &Example) -> u16 {
    match Request::from_example(&router.config, example) {
        Err(_) => 0,
        Ok(request) => {
            let routes = router.match_request(&request);
            Action::from_routes_rule(routes, &request, None).get_status_code(0, None)
        }
    }
}

fn live_pipeline(router: &Router<Rule>, example: &Example) -> Option<(u16, u16, Vec<(String, String)>, String, bool)> {
    let request = Request::from_example(&router.config, example).ok()?;
    let routes = router.match_request(&request);
    let mut action = Action::from_routes_rule(routes, &request, None);
    // request time: no backend response yet
    let at_request = action.get_status_code(0, None);
    let (final_code, backend) = if at_request != 0 {
        (at_request, at_request)
    } else {
        let backend = match example.response_status_code {
            Some(c) if c != 0 => c,
            _ => 200,
        };
        let c = action.get_status_code(backend, None);
        (c, backend)
    };
    let headers: Vec<(String, String)> = action.filter_headers(vec![], backend, false, None).into_iter().map(|h| (h.name, h.value)).collect();
    let body = "<!DOCTYPE html>\n<html>\n    <head>\n    </head>\n    <body>\n    </body>\n</html>";
    let out = match action.create_filter_body(backend, &[]) {
        None => body.to_string(),
        Some(mut f) => {
            let mut o = f.filter(body.as_bytes().to_vec(), None);
            o.extend(f.end(None));
            String::from_utf8_lossy(&o).to_string()
        }
    };
    let log = action.should_log_request(true, final_code, None);
    Some((final_code, backend, headers, out, log))
}

/// rule ids the live pipeline applies for one example (same call order as a proxy: request-time status, backend status,
/// headers, body, log decision), and the final status code
fn live_applied_ids(router: &Router<Rule>, example: &Example) -> Option<(BTreeSet<String>, u16)> {
    let request = Request::from_example(&router.config, example).ok()?;
    let routes = router.match_request(&request);
    let mut action = Action::from_routes_rule(routes, &request, None);
    let at_request = action.get_status_code(0, None);
    let (final_code, backend) = if at_request != 0 {
        (at_request, at_request)
    } else {
        let backend = example.response_status_code.unwrap_or(200);
        (action.get_status_code(backend, None), backend)
    };
    action.filter_headers(vec![], backend, false, None);
    if let Some(mut f) = action.create_filter_body(backend, &[]) {
        f.filter(b"<html><head></head><body></body></html>".to_vec(), None);
        f.end(None);
    }
    action.should_log_request(true, final_code, None);
    Some((action.get_applied_rule_ids().iter().cloned().collect(), final_code))
}

/// Independent verdict on the examples of the final rule list: an example that must match fails when the live pipeline does
/// not apply its rule, an example that must not match fails when it does. (Failures for unit ids are not asserted here; an example
/// whose rule verdict is fine must be listed when the independent follower finds a loop / too many hops.)
fn check_example_verdicts(final_rules: &[Value], router: &Router<Rule>, output: &Value, out: &mut Vec<(String, String)>, ctx: &str, max_hops: u8, domains: &[String]) {
    let mut expected_count = 0u64;
    for r in final_rules {
        let id = r["id"].as_str().unwrap_or("");
        for exv in r["examples"].as_array().cloned().unwrap_or_default() {
            let e: Example = match serde_json::from_value(exv.clone()) {
                Ok(e) => e,
                Err(_) => continue,
            };
            if e.unit_ids_applied.is_none() {
                continue;
            }
            let (applied, final_code) = match live_applied_ids(router, &e) {
                Some(x) => x,
                None => continue,
            };
            expected_count += 1;
            let rule_applied = applied.contains(id);
            let listed = output["first_ten_failures"][id]["failed_examples"].as_array().map(|l| l.iter().any(|fe| fe["example"]["url"] == exv["url"] && fe["example"]["method"] == exv["method"] && fe["example"]["must_match"] == exv["must_match"] && fe["example"]["response_status_code"] == exv["response_status_code"])).unwrap_or(false);
            let must_fail = (e.must_match && !rule_applied) || (!e.must_match && rule_applied);
            if must_fail && !listed {
                out.push((
                    format!("test-examples:verdict-differs-from-live-pipeline:must_match={}:not-reported-as-failed", e.must_match),
                    format!("rule {id} example {exv}: the live pipeline applies rules {applied:?}, so the example fails, but it is not listed in first_ten_failures; {ctx}"),
                ));
            }
            // an example whose rule verdict is fine still fails when its redirect chain (followed on the live pipeline, with the
            // example's backend status) loops or exceeds the hop limit
            if !must_fail && !listed {
                let (hops, error) = follow(router, &e, max_hops, domains);
                if matches!(error, Some("Loop") | Some("TooManyHops")) {
                    out.push((
                        format!("test-examples:verdict-differs-from-live-pipeline:redirect-chain-{}-not-reported", error.unwrap_or("")),
                        format!("rule {id} example {exv}: following the live pipeline gives hops {hops:?} ({error:?}) within max_hops={max_hops}, but the example is not listed as failed; {ctx}"),
                    ));
                }
            }
            let redirects = [301u16, 302, 307, 308].contains(&final_code);
            if !must_fail && listed && !e.must_match && !redirects {
                out.push((
                    "test-examples:verdict-differs-from-live-pipeline:must_match=false:reported-as-failed".to_string(),
                    format!("rule {id} example {exv}: the live pipeline applies rules {applied:?} (not this rule) and answers {final_code}, yet the example is listed as failed; {ctx}"),
                ));
            }
        }
    }
    if output["example_count"].as_u64() != Some(expected_count) {
        out.push(("test-examples:example-count".to_string(), format!("example_count {} but {expected_count} examples of the final rule list have expectations and a parsable request; {ctx}", output["example_count"])));
    }
}

fn join_url(base: &str, location: &str) -> String {
    match url::Url::parse(base) {
        Err(_) => location.to_string(),
        Ok(b) => match b.join(location) {
            Ok(u) => u.to_string(),
            Err(_) => location.to_string(),
        },
    }
}

/// Independent redirect-chain follower built on the live pipeline: (hops as (url, status, method), error)
fn follow(router: &Router<Rule>, example: &Example, max_hops: u8, domains: &[String]) -> (Vec<(String, u16, String)>, Option<&'static str>) {
    let mut url = example.url.clone();
    let mut method = example.method.clone().unwrap_or_else(|| "GET".to_string());
    let mut hops = vec![(url.clone(), 0u16, method.clone())];
    let mut error = None;
    for i in 1..=max_hops {
        let e = example.with_url(url.clone()).with_method(Some(method.clone()));
        let (code, _, headers, _, _) = match live_pipeline(router, &e) {
            Some(r) => r,
            None => break,
        };
        if ![301, 302, 307, 308].contains(&code) {
            break;
        }
        let location = match headers.iter().find(|(n, _)| n.to_lowercase() == "location") {
            Some((_, v)) => v.clone(),
            None => break,
        };
        let next = join_url(&url, &location);
        if i > 1 {
            error = Some("AtLeastOneHop");
        }
        // the request that follows a 301/302 is a GET; the repeat test is on the (URL, method) of that request
        let next_method = if code == 301 || code == 302 { "GET".to_string() } else { method.clone() };
        let repeated = hops.iter().any(|(u, _, m)| *u == next && *m == next_method);
        hops.push((next.clone(), code, next_method.clone()));
        if repeated {
            error = Some("Loop");
            break;
        }
        if let Ok(parsed) = url::Url::parse(&next) {
            let in_project = parsed.host_str().map(|h| domains.iter().any(|d| d == h)).unwrap_or(false);
            if !domains.is_empty() && !in_project {
                break;
            }
        }
        if i >= max_hops {
            error = Some("TooManyHops");
            break;
        }
        url = next;
        method = next_method;
    }
    (hops, error)
}

fn check_loop(rl: &Value, max_hops: u8, out: &mut Vec<(String, String)>, ctx: &str) {
    if rl.is_null() {
        return;
    }
    let hops = rl["hops"].as_array().cloned().unwrap_or_default();
    let error = rl["error"].as_str().unwrap_or("");
    if hops.len() > max_hops as usize + 1 {
        out.push(("loop:more-hops-than-limit".into(), format!("{} hops listed for max_hops={max_hops}; {ctx}", hops.len())));
    }
    // a loop is reported exactly when the last (url, method) repeats an earlier one
    let key = |h: &Value| (h["url"].as_str().unwrap_or("").to_string(), h["method"].as_str().unwrap_or("").to_string());
    let mut seen = HashSet::new();
    let mut repeat = false;
    for h in &hops {
        if !seen.insert(key(h)) {
            repeat = true;
        }
    }
    if repeat != (error == "Loop") {
        out.push(("loop:repeat-vs-reported".into(), format!("hops {hops:?} repeat={repeat} but error={error:?}; {ctx}")));
    }
    if error == "TooManyHops" && hops.len() != max_hops as usize + 1 {
        out.push(("loop:too-many-hops-before-limit".into(), format!("TooManyHops with {} hops, limit {max_hops}; {ctx}", hops.len())));
    }
    // every hop after the first is a redirect status
    for h in hops.iter().skip(1) {
        let sc = h["status_code"].as_u64().unwrap_or(0);
        if ![301, 302, 307, 308].contains(&sc) {
            out.push(("loop:non-redirect-hop".into(), format!("hop {h} is not a redirect; {ctx}")));
        }
    }
}

pub fn check_case(case: &Case) -> Vec<(String, String)> {
    IGNORE_CASE.with(|c| c.set(case.ignore_case));
    let mut out: Vec<(String, String)> = Vec::new();
    let b = build(case);
    let cfg_json = serde_json::to_value(config()).unwrap();
    let shared = Arc::new(router_of(&b.base_rules));
    let before = probe_answers(&shared);
    let before_snap = shared.verif_snapshot();
    let ctx = format!("base {:?} change-set +{:?} ~{:?} -{:?} hops {} domains {:?}", case.base, case.added, case.updated, case.deleted, case.max_hops, b.domains);
    let example = json!({"url": case.example_url.replace(HOST, HOST_SPELLINGS[case.host_kind as usize]), "method": case.example_method, "headers": null, "ip_address": null, "response_status_code": case.example_code, "must_match": true, "unit_ids_applied": []});
    let mut compare = |name: &str, project: Value, standalone: Value, out: &mut Vec<(String, String)>| {
        let p = strip(&project);
        let s = strip(&standalone);
        if p != s {
            let d = first_diff(&p, &s, "");
            out.push((format!("{name}:project-differs-from-standalone:{}", field_of(&d)), format!("first difference at {d}: project {} / standalone {}; {ctx}", p.pointer(&d).unwrap_or(&Value::Null), s.pointer(&d).unwrap_or(&Value::Null))));
        }
    };

    // TestExamples
    let te_project = serde_json::from_value::<TestExamplesProjectInput>(json!({"change_set": b.change_set, "max_hops": case.max_hops, "project_domains": b.domains}))
        .map(|i| serde_json::to_value(TestExamplesOutput::from_project(i, shared.clone())).unwrap());
    let te_standalone = |rules: &[Value]| {
        serde_json::from_value::<TestExamplesInput>(json!({"router_config": cfg_json, "rules": rules, "max_hops": case.max_hops, "project_domains": b.domains}))
            .map(|i| serde_json::to_value(TestExamplesOutput::create_result_without_project(i)).unwrap())
    };
    if let (Ok(p), Ok(s)) = (&te_project, &te_standalone(&b.final_rules)) {
        compare("test-examples", p.clone(), s.clone(), &mut out);
        if b.final_rules.len() <= 4 {
            check_example_verdicts(&b.final_rules, &router_of(&b.final_rules), s, &mut out, &ctx, case.max_hops, &b.domains);
        }
        // loops inside failures
        if let Some(f) = s["first_ten_failures"].as_object() {
            for fr in f.values() {
                for fe in fr["failed_examples"].as_array().cloned().unwrap_or_default() {
                    check_loop(&fe["redirection_loop"], case.max_hops, &mut out, &ctx);
                }
            }
        }
        // order independence
        if b.final_rules.len() >= 2 && b.final_rules.len() <= 4 {
            for perm in permutations(b.final_rules.len()).into_iter().skip(1) {
                let rules: Vec<Value> = perm.iter().map(|i| b.final_rules[*i].clone()).collect();
                if let Ok(o) = te_standalone(&rules) {
                    if strip(&o) != strip(s) {
                        let d = first_diff(&strip(&o), &strip(s), "");
                        out.push((format!("test-examples:depends-on-rule-order:{}", field_of(&d)), format!("rule order {perm:?} differs at {d}; {ctx}")));
                        break;
                    }
                }
            }
        }
    }
    // UnitIds
    let ui_project = serde_json::from_value::<UnitIdsProjectInput>(json!({"change_set": b.change_set})).map(|i| serde_json::to_value(UnitIdsOutput::create_result_from_project(i, shared.clone())).unwrap());
    let ui_standalone = serde_json::from_value::<UnitIdsInput>(json!({"router_config": cfg_json, "rules": b.final_rules})).map(|i| serde_json::to_value(UnitIdsOutput::create_result_without_project(i)).unwrap());
    if let (Ok(p), Ok(s)) = (&ui_project, &ui_standalone) {
        compare("unit-ids", p.clone(), s.clone(), &mut out);
    }
    // Explain
    let ex_project = serde_json::from_value::<ExplainRequestProjectInput>(json!({"example": example, "change_set": b.change_set, "max_hops": case.max_hops, "project_domains": b.domains}))
        .ok()
        .map(|i| ExplainRequestOutput::create_result_from_project(i, shared.clone()).map(|o| serde_json::to_value(o).unwrap()).map_err(|e| e.message));
    let ex_standalone = serde_json::from_value::<ExplainRequestInput>(json!({"router_config": cfg_json, "example": example, "rules": b.final_rules, "max_hops": case.max_hops, "project_domains": b.domains}))
        .ok()
        .map(|i| ExplainRequestOutput::create_result_without_project(i).map(|o| serde_json::to_value(o).unwrap()).map_err(|e| e.message));
    let final_router = router_of(&b.final_rules);
    match (&ex_project, &ex_standalone) {
        (Some(Ok(p)), Some(Ok(s))) => {
            compare("explain", p.clone(), s.clone(), &mut out);
            check_loop(&s["redirection_loop"], case.max_hops, &mut out, &ctx);
            // the hop list against the independent follower (only when the example carries no status code:
            // with one, explain and the live pipeline already disagree on the first response, see the open finding)
            if case.example_code.is_none() {
                if let Ok(e) = serde_json::from_value::<Example>(example.clone()) {
                    let (hops, error) = follow(&final_router, &e, case.max_hops, &b.domains);
                    let got_hops: Vec<(String, u16, String)> = s["redirection_loop"]["hops"].as_array().cloned().unwrap_or_default().iter().map(|h| (h["url"].as_str().unwrap_or("").to_string(), h["status_code"].as_u64().unwrap_or(0) as u16, h["method"].as_str().unwrap_or("").to_string())).collect();
                    let got_error = s["redirection_loop"]["error"].as_str();
                    if got_hops != hops || got_error != error {
                        out.push((
                            format!("loop:differs-from-independent-follower:{}", if got_hops != hops { "hops" } else { "error" }),
                            format!("explain reports hops {got_hops:?} error {got_error:?}; following the live pipeline gives {hops:?} error {error:?}; example {example}; {ctx}"),
                        ));
                    }
                }
            }
            // the reported response is the live pipeline's
            if let Ok(e) = serde_json::from_value::<Example>(example.clone()) {
                if let Some((fc, bc, headers, body, log)) = live_pipeline(&final_router, &e) {
                    let _ = bc;
                    let got_headers: Vec<(String, String)> = s["response"]["headers"].as_array().cloned().unwrap_or_default().iter().map(|h| (h["name"].as_str().unwrap_or("").to_string(), h["value"].as_str().unwrap_or("").to_string())).collect();
                    let fields = [
                        ("status_code", s["response"]["status_code"].as_u64() == Some(fc as u64)),
                        ("headers", got_headers == headers),
                        ("body", s["response"]["body"].as_str() == Some(body.as_str())),
                        ("should_log_request", s["should_log_request"].as_bool() == Some(log)),
                    ];
                    // the open finding: with an example status code explain skips the request-time phase. It only
                    // explains differences in cases where the live pipeline decides at request time.
                    let phase = if case.example_code.is_some() && request_time_status(&final_router, &e) != 0 { "given,live-pipeline-decides-at-request-time" } else if case.example_code.is_some() { "given,backend-phase" } else { "none" };
                    // unit ids of body filters, stated without the library: when the live pipeline applies exactly ONE rule, every
                    // body filter of that rule whose target exists in the skeleton the analyses filter (html > head, body; text
                    // edits always apply) is among the unit ids explain reports
                    if phase != "given,live-pipeline-decides-at-request-time" {
                        if let Some((applied, _)) = live_applied_ids(&final_router, &e) {
                            if applied.len() == 1 {
                                let rid = applied.iter().next().cloned().unwrap_or_default();
                                let reported: BTreeSet<String> = s["unit_trace"]["unit_ids_applied"].as_array().cloned().unwrap_or_default().iter().filter_map(|x| x.as_str().map(|y| y.to_string())).collect();
                                if let Some(rule) = b.final_rules.iter().find(|r| r["id"] == rid.as_str()) {
                                    for f in rule["body_filters"].as_array().cloned().unwrap_or_default() {
                                        let action = f["action"].as_str().unwrap_or("");
                                        let in_skeleton = match action {
                                            "append_text" | "prepend_text" | "replace_text" => true,
                                            _ => f["css_selector"].as_str().map(|c| c.is_empty()).unwrap_or(true) && (f["element_tree"] == json!(["html", "body"]) || f["element_tree"] == json!(["html", "head"])),
                                        };
                                        if let (true, Some(id)) = (in_skeleton, f["id"].as_str()) {
                                            if !reported.contains(id) {
                                                out.push((
                                                    format!("explain:unit-id-of-applied-body-filter-missing:{action}"),
                                                    format!("rule {rid} is the only rule the live pipeline applies, its {action} filter (unit {id}) targets an element of the analysed skeleton, explain reports unit ids {reported:?}; example {example}; {ctx}"),
                                                ));
                                            }
                                        }
                                    }
                                }
                            }
                        }
                    }
                    for (f, ok) in fields {
                        if !ok {
                            out.push((
                                format!("explain:response-differs-from-live-pipeline:{f}:example-code={phase}"),
                                format!("explain reports status {} backend {} headers {} log {}; the live pipeline gives status {fc} backend {bc} headers {headers:?} log {log}; example {example}; {ctx}", s["response"]["status_code"], s["backend_status_code"], s["response"]["headers"], s["should_log_request"]),
                            ));
                        }
                    }
                }
            }
        }
        (Some(Err(a)), Some(Err(b2))) => {
            if a != b2 {
                out.push(("explain:error-differs".into(), format!("{a} vs {b2}; {ctx}")));
            }
        }
        (Some(_), Some(_)) => out.push(("explain:one-family-fails".into(), format!("project ok: {}, standalone ok: {}; {ctx}", ex_project.as_ref().map(|r| r.is_ok()).unwrap_or(false), ex_standalone.as_ref().map(|r| r.is_ok()).unwrap_or(false)))),
        _ => {}
    }
    // Impact: the edited rule is the first updated / added / base rule
    let alpha = alphabet();
    let edited: Option<Value> = if case.impact_action == "add" && !case.added.is_empty() {
        // a draft that is already in the change-set and is edited again: the other version, same id
        case.added.first().map(|i| alpha[*i][1].clone())
    } else {
        case.updated.first().map(|i| alpha[*i][1].clone()).or_else(|| case.added.first().map(|i| alpha[*i][0].clone())).or_else(|| case.base.first().map(|i| alpha[*i][0].clone()))
    };
    if let Some(rule) = edited {
        let im_project = serde_json::from_value::<ImpactProjectInput>(json!({"max_hops": case.max_hops, "with_redirection_loop": true, "domains": b.domains, "rule": rule, "action": case.impact_action, "change_set": b.change_set}))
            .map(|i| serde_json::to_value(ImpactOutput::from_impact_project(i, shared.clone())).unwrap());
        let im_standalone = serde_json::from_value::<ImpactInput>(json!({"router_config": cfg_json, "max_hops": case.max_hops, "with_redirection_loop": true, "domains": b.domains, "rule": rule, "action": case.impact_action, "rules": b.final_rules}))
            .map(|i| serde_json::to_value(ImpactOutput::create_result(i)).unwrap());
        if let (Ok(p), Ok(s)) = (&im_project, &im_standalone) {
            compare("impact", p.clone(), s.clone(), &mut out);
            for imp in s["impacts"].as_array().cloned().unwrap_or_default() {
                check_loop(&imp["redirection_loop"], case.max_hops, &mut out, &ctx);
            }
        }
    }
    // the shared router must be untouched by every project call
    if probe_answers(&shared) != before || shared.verif_snapshot() != before_snap {
        out.push(("shared-router-changed-by-project-call".into(), ctx.clone()));
    }
    out.sort();
    out.dedup_by(|a, b| a.0 == b.0);
    out
}

pub fn replay(case: &Value) -> Vec<String> {
    match serde_json::from_value::<Case>(case.clone()) {
        Ok(c) => check_case(&c).into_iter().map(|(s, _)| s).collect(),
        Err(_) => vec![],
    }
}

pub fn cases(tier: Tier) -> Vec<Case> {
    let n = alphabet().len();
    let mut bases: Vec<Vec<usize>> = vec![vec![]];
    for i in 0..n {
        bases.push(vec![i]);
        for j in i + 1..n {
            bases.push(vec![i, j]);
            if tier == Tier::Thorough {
                for k in j + 1..n {
                    bases.push(vec![i, j, k]);
                }
            }
        }
    }
    // three-rule sets that close chains / loops are always included
    for extra in [vec![0, 1, 3], vec![0, 1, 4], vec![0, 3, 5], vec![0, 5, 7], vec![1, 4, 6]] {
        if !bases.contains(&extra) {
            bases.push(extra);
        }
    }
    let mut out = Vec::new();
    let urls = ["/a", "/b", "/c", "/s", "/x", "/k", "/l", "/p/x", "/zzz", "http://[::1", "/n", "https://example.org/n", "/Shop/x", "/shop/x", "https://example.org/a", "http://example.org/b"];
    let dc = alphabet().iter().position(|v| v[0]["id"] == "dc").unwrap();
    for (bi, base) in bases.iter().enumerate() {
        let absent: Vec<usize> = (0..n).filter(|i| !base.contains(i)).collect();
        let mut change_sets: Vec<(Vec<usize>, Vec<usize>, Vec<usize>)> = vec![(vec![], vec![], vec![])];
        if let Some(a) = absent.get(bi % absent.len().max(1)) {
            change_sets.push((vec![*a], vec![], vec![]));
            if let Some(d) = base.first() {
                change_sets.push((vec![*a], vec![], vec![*d]));
            }
        }
        if let Some(u) = base.first() {
            change_sets.push((vec![], vec![*u], vec![]));
            change_sets.push((vec![], vec![], vec![*u]));
            if let Some(d) = base.get(1) {
                change_sets.push((vec![], vec![*u], vec![*d]));
                change_sets.push((vec![], vec![*d], vec![*u]));
            }
        }
        for (ci, (added, updated, deleted)) in change_sets.into_iter().enumerate() {
            let hop_limits: Vec<u8> = vec![1, 2, 3, 5];
            for max_hops in hop_limits {
                for with_domain in [false, true] {
                    let k = bi + ci + max_hops as usize;
                    let url_sel: Vec<&str> = urls.to_vec();
                    for (ui, url) in url_sel.iter().enumerate() {
                        let code = match (k + ui) % 3 {
                            0 => None,
                            1 => Some(404),
                            _ => Some(200),
                        };
                        let action = ["update", "add", "delete"][(k + ui) % 3];
                        let example_method = if (k + ui) % 4 == 1 { Some("POST".to_string()) } else { None };
                        let c = Case {
                            base: base.clone(),
                            added: added.clone(),
                            updated: updated.clone(),
                            deleted: deleted.clone(),
                            max_hops,
                            with_domain,
                            example_url: url.to_string(),
                            example_code: code,
                            impact_action: action.to_string(),
                            example_method,
                            ignore_case: false,
                            host_kind: 0,
                        };
                        // the project served on an address literal: absolute examples, with the address as project domain
                        if with_domain && url.contains(HOST) {
                            for host_kind in [1u8, 2] {
                                out.push(Case { host_kind, ..c.clone() });
                            }
                        }
                        if base.contains(&dc) || added.contains(&dc) || updated.contains(&dc) {
                            out.push(Case { ignore_case: true, ..c.clone() });
                        }
                        out.push(c);
                    }
                }
            }
        }
    }
    out
}

pub fn run(tier: Tier) -> i32 {
    let ctx = Ctx::new("C19", tier, "exploration");
    let cases = cases(tier);
    let distinct = DistinctSet::new();
    let samples = Samples::new(5);
    par_range(ctx.threads, cases.len(), |i| {
        let c = &cases[i];
        ctx.eval(1);
        for (sig, what) in crate::common::run_case(|| serde_json::to_value(c).unwrap(), || check_case(c)) {
            ctx.report(Violation { signature: sig, what, case: serde_json::to_value(c).unwrap(), weight: (c.base.len() * 10 + c.added.len() + c.updated.len() + c.deleted.len()) as u64 });
        }
        let b = build(c);
        if !b.final_rules.is_empty() && (!c.added.is_empty() || !c.updated.is_empty() || !c.deleted.is_empty()) {
            distinct.insert_str(&format!("{:?}{:?}{:?}{:?}", c.base, c.added, c.updated, c.deleted));
        }
        if i % 997 == 3 {
            samples.offer(|| serde_json::to_value(c).unwrap());
        }
    });
    let mut cov = Coverage::new();
    cov.set("distinct_nontrivial", json!(distinct.len()))
        .set("rule", json!("evaluations = (base set, change-set, hop limit, domains, example, impact action) cases, each running the four analyses in both entry-point families, all orders of the standalone rule list, the live-pipeline comparison, the loop checks and the shared-router check; distinct_nontrivial = distinct (base set, non-empty change-set) combinations with a non-empty resulting rule list"))
        .set("cases", json!(cases.len()))
        .set("rule_alphabet", json!(alphabet().iter().map(|v| v[0]["id"].clone()).collect::<Vec<_>>()))
        .set("samples", json!(samples.take()))
        .set("exhaustive", json!(true));
    cov.assume("match_traces are compared through the set of rules they contain (their shape depends on hash-map order and on emptied buckets; the statement lists counts, statuses, headers, bodies and applied ids)")
        .assume("at most 4 failing rules per case, so first_ten_* is total");
    finish(&ctx, cov, &replay)
}
