//! Reference models (boring, independent re-statements of what the properties say).
