use verif_mc::common::Tier;

fn usage() -> ! {
    eprintln!("usage: mc <Cxx> <quick|thorough> | mc replay <file>");
    std::process::exit(2);
}

fn main() {
    let args: Vec<String> = std::env::args().collect();
    if args.len() < 3 {
        usage();
    }
    if args[1] == "c07-worker" {
        let tier = if args[2] == "thorough" { Tier::Thorough } else { Tier::Quick };
        std::process::exit(verif_mc::props::c07::worker(tier));
    }
    if args[1] == "c16-one" {
        verif_mc::common::quiet_panics();
        std::process::exit(verif_mc::props::c16::one(&args[2], args.get(3).map(|s| s.as_str()).unwrap_or("")));
    }
    if args[1] == "replay" {
        let text = std::fs::read_to_string(&args[2]).expect("read replay file");
        let doc: serde_json::Value = serde_json::from_str(&text).expect("parse replay file");
        let prop = doc["property"].as_str().expect("property").to_string();
        verif_mc::common::start_watchdog(verif_mc::props::static_prop(&prop), Tier::Quick, verif_mc::props::level_of(&prop), false);
        if doc["signature"].as_str().unwrap_or("").starts_with("does-not-terminate") && prop != "C16" {
            // the recorded case is one on which a call never returned: it is re-executed under the watchdog, which ends
            // the process with a VIOLATION line if it hangs again
            println!("replaying a non-terminating case under the termination watchdog ({}s)", verif_mc::common::watch_limit_s());
        }
        let sigs = verif_mc::props::replay(&prop, &doc["case"]);
        println!("replay of {} produced signatures: {:?}", args[2], sigs);
        let expected = doc["signature"].as_str().unwrap_or("");
        if sigs.iter().any(|s| s == expected) {
            println!("VIOLATION property={} replay={}", prop, args[2]);
            std::process::exit(1);
        }
        std::process::exit(0);
    }
    let tier = match std::env::var("VERIF_TIER").ok().as_deref().unwrap_or(args[2].as_str()) {
        "quick" => Tier::Quick,
        "thorough" => Tier::Thorough,
        _ => usage(),
    };
    let code = verif_mc::props::run(&args[1], tier);
    std::process::exit(code);
}
