//! C18 — the C interface keeps ownership and memory contracts.
//!
//! E6: explorer of well-typed call sequences (create* ; use* ; release, every handle released exactly once
//! through its matching function) over the extern "C" surface, executed under an auditing global
//! allocator that records (pointer -> size, align) for every live allocation and checks every
//! deallocation / reallocation against it: unknown pointer (double free, foreign pointer), layout
//! mismatch (deallocation size or alignment differs from the allocation) and leaks (live-set delta of
//! a measured run after a warm-up run). Value oracles: results equal the native Rust API.

use redirectionio::action::Action;
use redirectionio::filter::{Buffer, FilterBodyAction};
use redirectionio::http::{Header, Request};
use serde_json::{json, Value};
use std::alloc::{GlobalAlloc, Layout, System};
use std::collections::BTreeSet;
use std::sync::atomic::{AtomicBool, AtomicI64, AtomicUsize, Ordering};
use verif_mc::common::{finish, Coverage, Ctx, Samples, Tier, Violation};
use verif_mc::ffi::*;

// ------------------------------------------------------------------------------------------------
// auditing allocator (no allocation inside: fixed open-addressing table in static memory)

const CAP: usize = 1 << 21;
#[derive(Clone, Copy)]
struct Entry {
    ptr: usize,
    size: usize,
    align: usize,
}
const EMPTY: usize = 0;
const TOMB: usize = 1;

struct Table {
    entries: std::cell::UnsafeCell<[Entry; CAP]>,
    lock: AtomicBool,
}
unsafe impl Sync for Table {}

static TABLE: Table = Table { entries: std::cell::UnsafeCell::new([Entry { ptr: EMPTY, size: 0, align: 0 }; CAP]), lock: AtomicBool::new(false) };
static LIVE_COUNT: AtomicI64 = AtomicI64::new(0);
static LIVE_BYTES: AtomicI64 = AtomicI64::new(0);
static JUDGING: AtomicBool = AtomicBool::new(false);

#[derive(Clone, Copy, Debug)]
struct AuditEvent {
    kind: u8, // 1 = unknown pointer on dealloc, 2 = layout mismatch on dealloc, 3 = unknown on realloc, 4 = layout mismatch on realloc
    alloc_size: usize,
    alloc_align: usize,
    free_size: usize,
    free_align: usize,
}
const MAX_EVENTS: usize = 64;
struct Events {
    items: std::cell::UnsafeCell<[AuditEvent; MAX_EVENTS]>,
    len: AtomicUsize,
}
unsafe impl Sync for Events {}
static EVENTS: Events = Events { items: std::cell::UnsafeCell::new([AuditEvent { kind: 0, alloc_size: 0, alloc_align: 0, free_size: 0, free_align: 0 }; MAX_EVENTS]), len: AtomicUsize::new(0) };

fn lock() {
    while TABLE.lock.compare_exchange_weak(false, true, Ordering::Acquire, Ordering::Relaxed).is_err() {
        std::hint::spin_loop();
    }
}
fn unlock() {
    TABLE.lock.store(false, Ordering::Release);
}
fn slot_of(ptr: usize) -> usize {
    (ptr >> 4).wrapping_mul(0x9E3779B97F4A7C15) as usize % CAP
}
unsafe fn table_insert(ptr: usize, size: usize, align: usize) {
    let t = &mut *TABLE.entries.get();
    let mut i = slot_of(ptr);
    loop {
        if t[i].ptr == EMPTY || t[i].ptr == TOMB {
            t[i] = Entry { ptr, size, align };
            return;
        }
        i = (i + 1) % CAP;
    }
}
unsafe fn table_remove(ptr: usize) -> Option<Entry> {
    let t = &mut *TABLE.entries.get();
    let mut i = slot_of(ptr);
    let mut probes = 0;
    loop {
        if t[i].ptr == EMPTY || probes > CAP {
            return None;
        }
        if t[i].ptr == ptr {
            let e = t[i];
            // backward-shift deletion (no tombstones: probe chains stay as short as the live set makes them)
            let mut hole = i;
            let mut j = i;
            loop {
                j = (j + 1) % CAP;
                if t[j].ptr == EMPTY {
                    break;
                }
                let home = slot_of(t[j].ptr);
                let stays = if hole <= j { hole < home && home <= j } else { hole < home || home <= j };
                if stays {
                    continue;
                }
                t[hole] = t[j];
                hole = j;
            }
            t[hole].ptr = EMPTY;
            return Some(e);
        }
        i = (i + 1) % CAP;
        probes += 1;
    }
}
// Quarantine: while a call sequence runs, blocks that are released are not given back to the system allocator but parked
// until the sequence is over. A use after free (the library releasing something the caller's object still points to) then
// reads intact memory instead of corrupting the heap of this process, and the second release of the same block is seen as
// what it is (a free of a pointer that is not live) instead of crashing the explorer.
const QCAP: usize = 1 << 15;
struct Quarantine {
    on: AtomicBool,
    len: AtomicUsize,
    items: std::cell::UnsafeCell<[(usize, usize, usize); QCAP]>,
}
unsafe impl Sync for Quarantine {}
static QUAR: Quarantine = Quarantine { on: AtomicBool::new(false), len: AtomicUsize::new(0), items: std::cell::UnsafeCell::new([(0, 0, 0); QCAP]) };

fn quarantine_begin() {
    QUAR.on.store(true, Ordering::Relaxed);
}
fn quarantine_flush() {
    QUAR.on.store(false, Ordering::Relaxed);
    let n = QUAR.len.swap(0, Ordering::Relaxed).min(QCAP);
    for i in 0..n {
        unsafe {
            let (p, size, align) = (*QUAR.items.get())[i];
            System.dealloc(p as *mut u8, Layout::from_size_align_unchecked(size, align));
        }
    }
}

fn record(ev: AuditEvent) {
    if !JUDGING.load(Ordering::Relaxed) {
        return;
    }
    let n = EVENTS.len.fetch_add(1, Ordering::Relaxed);
    if n < MAX_EVENTS {
        unsafe {
            (*EVENTS.items.get())[n] = ev;
        }
    }
}

struct Auditor;

unsafe impl GlobalAlloc for Auditor {
    unsafe fn alloc(&self, layout: Layout) -> *mut u8 {
        let p = System.alloc(layout);
        if !p.is_null() {
            lock();
            table_insert(p as usize, layout.size(), layout.align());
            unlock();
            LIVE_COUNT.fetch_add(1, Ordering::Relaxed);
            LIVE_BYTES.fetch_add(layout.size() as i64, Ordering::Relaxed);
        }
        p
    }
    unsafe fn alloc_zeroed(&self, layout: Layout) -> *mut u8 {
        let p = System.alloc_zeroed(layout);
        if !p.is_null() {
            lock();
            table_insert(p as usize, layout.size(), layout.align());
            unlock();
            LIVE_COUNT.fetch_add(1, Ordering::Relaxed);
            LIVE_BYTES.fetch_add(layout.size() as i64, Ordering::Relaxed);
        }
        p
    }
    unsafe fn dealloc(&self, ptr: *mut u8, layout: Layout) {
        lock();
        let e = table_remove(ptr as usize);
        unlock();
        match e {
            None => {
                // double free or foreign pointer: do not forward (the system allocator would corrupt its heap)
                record(AuditEvent { kind: 1, alloc_size: 0, alloc_align: 0, free_size: layout.size(), free_align: layout.align() });
            }
            Some(e) => {
                LIVE_COUNT.fetch_sub(1, Ordering::Relaxed);
                LIVE_BYTES.fetch_sub(e.size as i64, Ordering::Relaxed);
                if e.size != layout.size() || e.align != layout.align() {
                    record(AuditEvent { kind: 2, alloc_size: e.size, alloc_align: e.align, free_size: layout.size(), free_align: layout.align() });
                }
                // release with the layout it was allocated with (parked while a sequence runs, see Quarantine)
                if QUAR.on.load(Ordering::Relaxed) {
                    let i = QUAR.len.fetch_add(1, Ordering::Relaxed);
                    if i < QCAP {
                        (*QUAR.items.get())[i] = (ptr as usize, e.size, e.align);
                        return;
                    }
                }
                System.dealloc(ptr, Layout::from_size_align_unchecked(e.size, e.align));
            }
        }
    }
    unsafe fn realloc(&self, ptr: *mut u8, layout: Layout, new_size: usize) -> *mut u8 {
        lock();
        let e = table_remove(ptr as usize);
        unlock();
        let real = match e {
            None => {
                record(AuditEvent { kind: 3, alloc_size: 0, alloc_align: 0, free_size: layout.size(), free_align: layout.align() });
                // cannot realloc an unknown pointer safely: allocate fresh memory
                let p = System.alloc(Layout::from_size_align_unchecked(new_size, layout.align()));
                if !p.is_null() {
                    lock();
                    table_insert(p as usize, new_size, layout.align());
                    unlock();
                    LIVE_COUNT.fetch_add(1, Ordering::Relaxed);
                    LIVE_BYTES.fetch_add(new_size as i64, Ordering::Relaxed);
                }
                return p;
            }
            Some(e) => {
                if e.size != layout.size() || e.align != layout.align() {
                    record(AuditEvent { kind: 4, alloc_size: e.size, alloc_align: e.align, free_size: layout.size(), free_align: layout.align() });
                }
                e
            }
        };
        let p = System.realloc(ptr, Layout::from_size_align_unchecked(real.size, real.align), new_size);
        lock();
        if p.is_null() {
            table_insert(ptr as usize, real.size, real.align);
        } else {
            table_insert(p as usize, new_size, real.align);
        }
        unlock();
        if !p.is_null() {
            LIVE_BYTES.fetch_add(new_size as i64 - real.size as i64, Ordering::Relaxed);
        }
        p
    }
}

#[global_allocator]
static GLOBAL: Auditor = Auditor;

unsafe fn table_get(ptr: usize) -> Option<Entry> {
    let t = &*TABLE.entries.get();
    let mut i = slot_of(ptr);
    let mut probes = 0;
    loop {
        if t[i].ptr == EMPTY || probes > CAP {
            return None;
        }
        if t[i].ptr == ptr {
            return Some(t[i]);
        }
        i = (i + 1) % CAP;
        probes += 1;
    }
}

fn take_events() -> Vec<AuditEvent> {
    let n = EVENTS.len.swap(0, Ordering::Relaxed).min(MAX_EVENTS);
    let mut v = Vec::new();
    for i in 0..n {
        v.push(unsafe { (*EVENTS.items.get())[i] });
    }
    v
}

// ------------------------------------------------------------------------------------------------
// call alphabet

#[derive(Clone, Copy, Debug, PartialEq, Eq, PartialOrd, Ord, serde::Serialize, serde::Deserialize)]
pub enum Call {
    RequestCreate(u8),
    RequestFromStr,
    RequestJsonDeserialize,
    ActionJsonDeserialize(u8),
    BodyFilterCreate(u8),
    TrustedProxiesCreate,
    BufferFromVec(u8),
    BufferFromString(u8),
    RequestJsonSerialize,
    ActionJsonSerialize,
    GetStatusCode,
    HeaderFilterFilter(u8),
    BodyFilterFilter,
    BodyFilterFilterNull,
    ShouldLogRequest,
    SetRemoteAddr,
    AddProxy,
    /// a string that is no address / range: ignored with a warning, the object stays usable
    AddProxyRejected,
    CreateLogInJson,
    BufferDuplicate,
    BufferClone,
    RequestDrop,
    ActionDrop,
    BodyFilterDrop,
    BodyFilterClose,
    BufferDrop,
    GetApiVersion,
}

pub const CALLS: &[Call] = &[
    Call::RequestCreate(0),
    Call::RequestCreate(1),
    Call::RequestCreate(2),
    Call::RequestCreate(3),
    Call::RequestFromStr,
    Call::RequestJsonDeserialize,
    Call::ActionJsonDeserialize(0),
    Call::ActionJsonDeserialize(1),
    Call::ActionJsonDeserialize(2),
    Call::ActionJsonDeserialize(3),
    Call::BodyFilterCreate(0),
    Call::BodyFilterCreate(1),
    Call::BodyFilterCreate(2),
    Call::TrustedProxiesCreate,
    Call::BufferFromVec(0),
    Call::BufferFromVec(1),
    Call::BufferFromVec(2),
    Call::BufferFromVec(3),
    Call::BufferFromString(0),
    Call::BufferFromString(1),
    Call::RequestJsonSerialize,
    Call::ActionJsonSerialize,
    Call::GetStatusCode,
    Call::HeaderFilterFilter(0),
    Call::HeaderFilterFilter(1),
    Call::HeaderFilterFilter(2),
    Call::HeaderFilterFilter(3),
    Call::HeaderFilterFilter(4),
    Call::BodyFilterFilter,
    Call::BodyFilterFilterNull,
    Call::ShouldLogRequest,
    Call::SetRemoteAddr,
    Call::AddProxy,
    Call::AddProxyRejected,
    Call::CreateLogInJson,
    Call::BufferDuplicate,
    Call::BufferClone,
    Call::RequestDrop,
    Call::ActionDrop,
    Call::BodyFilterDrop,
    Call::BodyFilterClose,
    Call::BufferDrop,
    Call::GetApiVersion,
];

fn action_json(kind: u8) -> String {
    // built once (the documents are constants; building the large one costs more than everything the library does with it)
    static DOCS: std::sync::OnceLock<Vec<String>> = std::sync::OnceLock::new();
    DOCS.get_or_init(|| (0..4).map(build_action_json).collect())[kind as usize].clone()
}

fn build_action_json(kind: u8) -> String {
    if kind == 3 {
        // not an action document: both sides refuse it (the C surface logs the error and returns NULL)
        return "{\"status_code_update\": 12, \"header_filters\": \"none\"".to_string();
    }
    if kind == 2 {
        // what 400 matched rules with one small header filter each give: a document over 64 KiB made of short strings
        let filters: Vec<Value> = (0..400)
            .map(|i| json!({"filter": {"action": "add", "header": format!("X-H-{i}"), "value": format!("v{i}"), "id": null, "target_hash": null}, "on_response_status_codes": [], "exclude_response_status_codes": false, "rule_id": format!("r{i}")}))
            .collect();
        return json!({"status_code_update": null, "header_filters": filters, "body_filters": [], "rule_ids": ["r"], "rule_traces": [], "rules_applied": [], "log_override": null}).to_string();
    }
    let body_filters = if kind == 0 {
        json!([{"filter": {"action": "append_child", "value": "<i>v</i>", "inner_value": null, "element_tree": ["html", "body"], "css_selector": null, "id": null, "target_hash": null},
                "on_response_status_codes": [], "exclude_response_status_codes": false, "rule_id": "r"},
               {"filter": {"action": "append_text", "content": "T", "id": null, "target_hash": null}, "on_response_status_codes": [], "exclude_response_status_codes": false, "rule_id": "r"}])
    } else {
        json!([])
    };
    json!({
        "status_code_update": {"status_code": 302, "on_response_status_codes": [], "exclude_response_status_codes": false, "fallback_status_code": 0, "rule_id": "r", "fallback_rule_id": null, "unit_id": null, "target_hash": null},
        "header_filters": [{"filter": {"action": "override", "header": "Location", "value": "/t", "id": null, "target_hash": null}, "on_response_status_codes": [], "exclude_response_status_codes": false, "rule_id": "r"},
                           {"filter": {"action": "add", "header": "X-A", "value": "2", "id": null, "target_hash": null}, "on_response_status_codes": [], "exclude_response_status_codes": false, "rule_id": "r"},
                           // a value that cannot become a C string (NUL inside): its node carries a NULL value
                           {"filter": {"action": "add", "header": "X-Nul", "value": "a\u{0}b", "id": null, "target_hash": null}, "on_response_status_codes": [], "exclude_response_status_codes": false, "rule_id": "r"}],
        "body_filters": body_filters,
        "rule_ids": ["r"], "rule_traces": [{"id": "r", "on_response_status_codes": [], "exclude_response_status_codes": false}], "rules_applied": [],
        "log_override": if kind == 0 { json!({"log_override": false, "rule_id": "log-rule", "on_response_status_codes": [404], "exclude_response_status_codes": false,
                                               "fallback_log_override": true, "fallback_rule_id": "log-fallback", "unit_id": null}) } else { Value::Null }
    })
    .to_string()
}

fn buffer_payload(kind: u8) -> Vec<u8> {
    match kind {
        0 => Vec::new(),
        1 => vec![b'x'],
        2 => {
            let mut v = b"<html><body>".to_vec();
            v.extend(std::iter::repeat(b'a').take(4096));
            v.extend_from_slice(b"</body></html>");
            v.shrink_to_fit();
            v
        }
        _ => {
            // capacity != length
            let mut v = Vec::with_capacity(257);
            v.extend_from_slice(b"<html><body>cap</body></html>");
            v
        }
    }
}

struct World {
    request: *mut Request,
    action: *mut Action,
    filter: *mut FilterBodyAction,
    proxies: *mut CTrustedProxies,
    buffer: Option<(Buffer, Vec<u8>)>,
    /// native mirrors for the value oracles
    native_action: Option<Action>,
    native_filter: Option<FilterBodyAction>,
    used_proxies: bool,
    mismatches: Vec<(String, String)>,
}

impl World {
    fn new() -> World {
        World {
            request: std::ptr::null_mut(),
            action: std::ptr::null_mut(),
            filter: std::ptr::null_mut(),
            proxies: std::ptr::null_mut(),
            buffer: None,
            native_action: None,
            native_filter: None,
            used_proxies: false,
            mismatches: Vec::new(),
        }
    }

    fn key(&self) -> String {
        format!(
            "R{}A{}F{}T{}B{}",
            !self.request.is_null() as u8,
            !self.action.is_null() as u8,
            !self.filter.is_null() as u8,
            !self.proxies.is_null() as u8,
            match &self.buffer {
                None => "-".to_string(),
                Some((_, bytes)) => format!("{}", bytes.len().min(9999)),
            }
        )
    }

    /// is the call well-typed in this state (a handle is used after create and before its single release;
    /// at most one live object per kind)
    fn enabled(&self, c: Call) -> bool {
        use Call::*;
        match c {
            RequestCreate(_) | RequestFromStr | RequestJsonDeserialize => self.request.is_null(),
            ActionJsonDeserialize(_) => self.action.is_null(),
            BodyFilterCreate(_) => !self.action.is_null() && self.filter.is_null(),
            TrustedProxiesCreate => self.proxies.is_null(),
            BufferFromVec(_) | BufferFromString(_) => self.buffer.is_none(),
            RequestJsonSerialize | RequestDrop => !self.request.is_null(),
            ActionJsonSerialize | GetStatusCode | HeaderFilterFilter(_) | ShouldLogRequest | ActionDrop => !self.action.is_null(),
            BodyFilterFilter => !self.filter.is_null() && self.buffer.is_some(),
            BodyFilterFilterNull | BufferDuplicate | BufferClone | BufferDrop => self.buffer.is_some(),
            SetRemoteAddr | CreateLogInJson => !self.request.is_null(),
            AddProxy | AddProxyRejected => !self.proxies.is_null(),
            BodyFilterDrop | BodyFilterClose => !self.filter.is_null(),
            GetApiVersion => true,
        }
    }

    fn mismatch(&mut self, kind: &str, what: String) {
        self.mismatches.push((kind.to_string(), what));
    }

    unsafe fn exec(&mut self, c: Call) {
        use Call::*;
        match c.clone() {
            RequestCreate(k) => {
                // k == 3: a URL longer than 64 KiB (one very long parameter value)
                let long_uri = if k == 3 { format!("/p?b=2&a=1&utm_source=x&z={}", "z".repeat(70_000)) } else { String::new() };
                let uri_text: &str = if k == 3 { &long_uri } else { "/p?b=2&a=1&utm_source=x" };
                let uri = OwnedC::new(uri_text);
                let host = OwnedC::new("h.example");
                let scheme = OwnedC::new("https");
                let method = OwnedC::new("POST");
                let long_names: Vec<String> = (0..130).map(|i| format!("X-Long-{i}")).collect();
                let h = if k == 0 {
                    OwnedHeaders::new(&[(Some("X-Forwarded-For"), Some("10.0.0.1, 10.0.0.2")), (Some("User-Agent"), Some("ua"))])
                } else if k == 2 {
                    OwnedHeaders::new(&long_names.iter().map(|n| (Some(n.as_str()), Some("v"))).collect::<Vec<_>>())
                } else {
                    OwnedHeaders::new(&[])
                };
                self.request = redirectionio_request_create(uri.ptr(), host.ptr(), if k == 0 { scheme.ptr() } else { std::ptr::null() }, if k == 0 { method.ptr() } else { std::ptr::null() }, h.ptr()) as *mut Request;
                if self.request.is_null() {
                    self.mismatch("request_create-null", "request_create returned NULL".into());
                } else {
                    let r = &*self.request;
                    if r.host.as_deref() != Some("h.example") || r.path_and_query_skipped.original != uri_text || r.headers.len() != if k == 0 { 2 } else if k == 2 { 130 } else { 0 } {
                        self.mismatch("request_create-content", format!("{r:?}"));
                    }
                }
            }
            RequestFromStr => {
                let url = OwnedC::new("https://h.example/p?a=1");
                self.request = redirectionio_request_from_str(url.ptr()) as *mut Request;
                let native = "https://h.example/p?a=1".parse::<Request>().ok();
                match (self.request.is_null(), native) {
                    (false, Some(n)) => {
                        let mut a = (*self.request).clone();
                        a.created_at = None;
                        let mut b = n;
                        b.created_at = None;
                        if serde_json::to_string(&a).ok() != serde_json::to_string(&b).ok() {
                            self.mismatch("request_from_str-differs-from-native", format!("{a:?} vs {b:?}"));
                        }
                    }
                    (true, None) => {}
                    _ => self.mismatch("request_from_str-differs-from-native", "one is null".into()),
                }
            }
            RequestJsonDeserialize => {
                let js = r#"{"path_and_query":{"path_and_query":"/p?a=1","path_and_query_matching":"/p?a=1","skipped_query_params":null,"original":"/p?a=1"},"path_and_query_v2":"/p?a=1","host":"h.example","scheme":"https","method":"GET","headers":[{"name":"X-A","value":"1"}],"remote_addr":"10.0.0.1","created_at":"2024-06-01T10:00:00Z","sampling_override":null}"#;
                let s = OwnedC::new(js);
                self.request = redirectionio_request_json_deserialize(s.mut_ptr()) as *mut Request;
                if self.request.is_null() {
                    self.mismatch("request_json_deserialize-null", "valid request JSON gave NULL".into());
                }
            }
            ActionJsonDeserialize(k) => {
                let js = action_json(k);
                let s = OwnedC::new(&js);
                self.action = redirectionio_action_json_deserialize(s.mut_ptr()) as *mut Action;
                self.native_action = serde_json::from_str(&js).ok();
                if self.action.is_null() != self.native_action.is_none() {
                    self.mismatch("action_json_deserialize-differs-from-native", format!("document of {} bytes: C surface gives {}, native gives {}", js.len(), if self.action.is_null() { "NULL" } else { "an action" }, if self.native_action.is_none() { "an error" } else { "an action" }));
                }
            }
            BodyFilterCreate(k) => {
                let h = match k {
                    0 => OwnedHeaders::new(&[(Some("Content-Type"), Some("text/html"))]),
                    2 => OwnedHeaders::new(&[(Some("Content-Type"), Some("text/html")), (Some("Content-Encoding"), Some("gzip"))]),
                    _ => OwnedHeaders::new(&[(Some("Content-Type"), Some("application/json")), (Some("Content-Encoding"), Some("zstd"))]),
                };
                self.filter = redirectionio_action_body_filter_create(self.action, 200, h.ptr()) as *mut FilterBodyAction;
                let nh: Vec<Header> = match k {
                    0 => vec![Header { name: "Content-Type".into(), value: "text/html".into() }],
                    2 => vec![Header { name: "Content-Type".into(), value: "text/html".into() }, Header { name: "Content-Encoding".into(), value: "gzip".into() }],
                    _ => vec![Header { name: "Content-Type".into(), value: "application/json".into() }, Header { name: "Content-Encoding".into(), value: "zstd".into() }],
                };
                self.native_filter = self.native_action.as_mut().and_then(|a| a.create_filter_body(200, &nh));
                if self.filter.is_null() != self.native_filter.is_none() {
                    self.mismatch("body_filter_create-differs-from-native", format!("ffi null: {}, native none: {}", self.filter.is_null(), self.native_filter.is_none()));
                }
                if k == 2 && !self.filter.is_null() {
                    // the body is declared gzip but is not: the first chunk makes the filter fail, later chunks go through a
                    // filter that is in its error state (ownership of the input buffer must not change because of that)
                    let chunk = b"<html><body>this is not gzip</body></html>".to_vec();
                    let out = redirectionio_action_body_filter_filter(self.filter, Buffer::from_vec(chunk.clone()));
                    let got = out.to_vec();
                    redirectionio_api_buffer_drop(out);
                    let want = self.native_filter.as_mut().map(|f| f.filter(chunk.clone(), None)).unwrap_or(chunk);
                    if got != want {
                        self.mismatch("body_filter_filter-differs-from-native", format!("failing first chunk: {:?} vs {:?}", String::from_utf8_lossy(&got), String::from_utf8_lossy(&want)));
                    }
                }
            }
            _ => {}
            }
            // unusual but legal response header lists (repeated Content-Type / Content-Encoding, other letter case): an extra
            // filter is created on both sides, fed one chunk and closed within this call
            if matches!(c, BodyFilterCreate(0)) {
                let lists: [&[(&str, &str)]; 5] = [
                    &[("Content-Type", "text/html"), ("Content-Type", "text/html"), ("Content-Encoding", "gzip")],
                    &[("Content-Type", "text/html"), ("Content-Type", "text/html"), ("Content-Encoding", "zstd")],
                    &[("Content-Type", "text/html"), ("Content-Encoding", "gzip"), ("Content-Type", "application/json")],
                    &[("content-type", "TEXT/HTML; charset=utf-8"), ("X-A", "1"), ("X-B", "2"), ("CONTENT-ENCODING", "identity")],
                    &[("X-A", "1"), ("Content-Type", "application/json"), ("Content-Type", "text/html")],
                ];
                for (li, list) in lists.iter().enumerate() {
                    let pairs: Vec<(Option<&str>, Option<&str>)> = list.iter().map(|(n, v)| (Some(*n), Some(*v))).collect();
                    let h = OwnedHeaders::new(&pairs);
                    let extra = redirectionio_action_body_filter_create(self.action, 200, h.ptr()) as *mut FilterBodyAction;
                    let nh: Vec<Header> = list.iter().map(|(n, v)| Header { name: n.to_string(), value: v.to_string() }).collect();
                    let mut native_extra = self.native_action.as_mut().and_then(|a| a.create_filter_body(200, &nh));
                    if extra.is_null() != native_extra.is_none() {
                        self.mismatch("body_filter_create-differs-from-native", format!("header list #{li} {list:?}: ffi null: {}, native none: {}", extra.is_null(), native_extra.is_none()));
                    }
                    if !extra.is_null() {
                        let chunk = b"<html><body><p>plain</p></body></html>".to_vec();
                        let out = redirectionio_action_body_filter_filter(extra, Buffer::from_vec(chunk.clone()));
                        let mut got = out.to_vec();
                        redirectionio_api_buffer_drop(out);
                        let end = redirectionio_action_body_filter_close(extra);
                        got.extend(end.to_vec());
                        redirectionio_api_buffer_drop(end);
                        if let Some(f) = native_extra.as_mut() {
                            let mut want = f.filter(chunk.clone(), None);
                            want.extend(f.end(None));
                            if got != want {
                                self.mismatch("body_filter_filter-differs-from-native", format!("header list #{li} {list:?}: {:?} vs {:?}", String::from_utf8_lossy(&got), String::from_utf8_lossy(&want)));
                            }
                        }
                    }
                }
            }
            match c {
            TrustedProxiesCreate => {
                let s = OwnedC::new("10.0.0.0/8, 127.0.0.1");
                self.proxies = redirectionio_trusted_proxies_create(s.ptr()) as *mut CTrustedProxies;
                self.used_proxies = true;
            }
            BufferFromVec(k) => {
                let bytes = buffer_payload(k);
                let mut v = Vec::with_capacity(if k == 3 { 257 } else { bytes.len() });
                v.extend_from_slice(&bytes);
                self.buffer = Some((Buffer::from_vec(v), bytes));
            }
            BufferFromString(k) => {
                let s = if k == 0 { String::from("héllo <b>") } else { String::with_capacity(100) + "cap" };
                let bytes = s.as_bytes().to_vec();
                self.buffer = Some((Buffer::from_string(s), bytes));
            }
            RequestJsonSerialize => {
                let got = take_string(redirectionio_request_json_serialize(self.request));
                let want = serde_json::to_string(&*self.request).ok();
                if got != want {
                    self.mismatch("request_json_serialize-differs-from-native", format!("{got:?} vs {want:?}"));
                }
            }
            ActionJsonSerialize => {
                let got = take_string(redirectionio_action_json_serialize(self.action));
                let want = serde_json::to_string(&*self.action).ok();
                if got != want {
                    self.mismatch("action_json_serialize-differs-from-native", format!("{got:?} vs {want:?}"));
                }
                // the native mirror received the same calls through the Rust API: same state expected
                let mirror = self.native_action.as_ref().and_then(|a| serde_json::to_string(a).ok());
                if got != mirror {
                    self.mismatch("action-state-differs-from-native-after-same-calls", format!("{got:?} vs {mirror:?}"));
                }
            }
            GetStatusCode => {
                let got = redirectionio_action_get_status_code(self.action, 0);
                let want = self.native_action.as_mut().map(|a| a.get_status_code(0, None)).unwrap_or(0);
                if got != want {
                    self.mismatch("get_status_code-differs-from-native", format!("{got} vs {want}"));
                }
            }
            HeaderFilterFilter(3) => {
                // a long list (130 entries): every node comes back
                let names: Vec<String> = (0..130).map(|i| format!("X-Long-{i}")).collect();
                let entries: Vec<(Option<&str>, Option<&str>)> = names.iter().map(|n| (Some(n.as_str()), Some("v"))).collect();
                let h = OwnedHeaders::new(&entries);
                let out = redirectionio_action_header_filter_filter(self.action, h.ptr(), 200, false);
                let mut got: Vec<(String, String)> = if out == h.ptr() { entries.iter().map(|(n, v)| (n.unwrap().to_string(), v.unwrap().to_string())).collect() } else { take_header_list(out) };
                let native_in: Vec<Header> = names.iter().map(|n| Header { name: n.clone(), value: "v".into() }).collect();
                let mut want: Vec<(String, String)> = self.native_action.as_mut().map(|a| a.filter_headers(native_in, 200, false, None)).unwrap_or_default().into_iter()
                    .map(|h| (if h.name.contains('\0') { "<NULL>".to_string() } else { h.name }, if h.value.contains('\0') { "<NULL>".to_string() } else { h.value })).collect();
                got.sort();
                want.sort();
                if got != want {
                    self.mismatch("header_filter_filter-differs-from-native", format!("list of 130 headers: {} entries back, native gives {}", got.len(), want.len()));
                }
            }
            HeaderFilterFilter(4) => {
                // header values of 65 535, 65 536 and 100 000 bytes (a long cookie, an inlined policy): the list round-trips
                let values: Vec<String> = [65_535usize, 65_536, 100_000].iter().map(|n| "c".repeat(*n)).collect();
                let entries: Vec<(Option<&str>, Option<&str>)> = vec![(Some("X-A"), Some("1")), (Some("Cookie"), Some(values[0].as_str())), (Some("X-Policy"), Some(values[1].as_str())), (Some("X-Big"), Some(values[2].as_str()))];
                let h = OwnedHeaders::new(&entries);
                let out = redirectionio_action_header_filter_filter(self.action, h.ptr(), 200, false);
                let mut got: Vec<(String, String)> = if out == h.ptr() { entries.iter().map(|(n, v)| (n.unwrap().to_string(), v.unwrap().to_string())).collect() } else { take_header_list(out) };
                let native_in: Vec<Header> = entries.iter().map(|(n, v)| Header { name: n.unwrap().to_string(), value: v.unwrap().to_string() }).collect();
                let mut want: Vec<(String, String)> = self.native_action.as_mut().map(|a| a.filter_headers(native_in, 200, false, None)).unwrap_or_default().into_iter()
                    .map(|h| (if h.name.contains('\0') { "<NULL>".to_string() } else { h.name }, if h.value.contains('\0') { "<NULL>".to_string() } else { h.value })).collect();
                got.sort();
                want.sort();
                if got != want {
                    let short = |v: &[(String, String)]| v.iter().map(|(n, x)| format!("{n}:{}B", x.len())).collect::<Vec<_>>();
                    self.mismatch("header_filter_filter-differs-from-native", format!("list with values of 65535 / 65536 / 100000 bytes: {:?} vs {:?}", short(&got), short(&want)));
                }
            }
            HeaderFilterFilter(2) => {
                // a caller-built list with entries the library cannot decode (NULL name, NULL value, ISO-8859-1 bytes) BETWEEN
                // valid ones: the undecodable entries are skipped, every other header is kept
                let raw: Vec<(Option<&[u8]>, Option<&[u8]>)> = vec![
                    (Some(b"X-A"), Some(b"1")),
                    (Some(b"X-NullValue"), None),
                    (Some(b"X-B"), Some(b"2")),
                    (None, Some(b"v")),
                    (Some(b"X-Latin1"), Some(b"caf\xe9")),
                    (Some(b"X-C"), Some(b"3")),
                ];
                let h = OwnedHeaders::new_raw(&raw);
                let out = redirectionio_action_header_filter_filter(self.action, h.ptr(), 200, false);
                let mut got: Vec<(String, String)> = if out == h.ptr() { vec![("<input list returned>".into(), String::new())] } else { take_header_list(out) };
                let native_in: Vec<Header> = [("X-A", "1"), ("X-B", "2"), ("X-C", "3")].iter().map(|(n, v)| Header { name: n.to_string(), value: v.to_string() }).collect();
                let mut want: Vec<(String, String)> = self.native_action.as_mut().map(|a| a.filter_headers(native_in, 200, false, None)).unwrap_or_default().into_iter()
                    // a string with an interior NUL has no C representation: the node is there, with a NULL pointer
                    .map(|h| (if h.name.contains('\0') { "<NULL>".to_string() } else { h.name }, if h.value.contains('\0') { "<NULL>".to_string() } else { h.value })).collect();
                got.sort();
                want.sort();
                if got != want {
                    self.mismatch("header_filter_filter-differs-from-native", format!("list with undecodable entries between valid ones: {got:?} vs {want:?}"));
                }
            }
            HeaderFilterFilter(k) => {
                let entries: Vec<(Option<&str>, Option<&str>)> = if k == 0 { vec![(Some("Location"), Some("/old")), (Some("X-A"), Some("1")), (Some("x-a"), Some(""))] } else { vec![] };
                let h = OwnedHeaders::new(&entries);
                let out = redirectionio_action_header_filter_filter(self.action, h.ptr(), 200, k == 0);
                let mut got = if out == h.ptr() { entries.iter().map(|(n, v)| (n.unwrap().to_string(), v.unwrap().to_string())).collect() } else { take_header_list(out) };
                let native_in: Vec<Header> = entries.iter().map(|(n, v)| Header { name: n.unwrap().to_string(), value: v.unwrap().to_string() }).collect();
                let mut want: Vec<(String, String)> = self
                    .native_action
                    .as_mut()
                    .map(|a| a.filter_headers(native_in, 200, k == 0, None))
                    .unwrap_or_default()
                    .into_iter()
                    // a string with an interior NUL has no C representation: the node must still be there, with a NULL pointer
                    .map(|h| (if h.name.contains('\0') { "<NULL>".to_string() } else { h.name }, if h.value.contains('\0') { "<NULL>".to_string() } else { h.value }))
                    .collect();
                got.sort();
                want.sort();
                if got != want {
                    self.mismatch("header_filter_filter-differs-from-native", format!("{got:?} vs {want:?}"));
                }
            }
            BodyFilterFilter => {
                let (b, bytes) = self.buffer.take().unwrap();
                let out = redirectionio_action_body_filter_filter(self.filter, b);
                let out_bytes = out.to_vec();
                let want = self.native_filter.as_mut().map(|f| f.filter(bytes.clone(), None)).unwrap_or(bytes);
                if out_bytes != want {
                    self.mismatch("body_filter_filter-differs-from-native", format!("{:?} vs {:?}", String::from_utf8_lossy(&out_bytes), String::from_utf8_lossy(&want)));
                }
                self.buffer = Some((out, out_bytes));
            }
            BodyFilterFilterNull => {
                // contract: with a NULL filter the input buffer stays the caller's, the result is a duplicate
                let (b, bytes) = self.buffer.take().unwrap();
                let alias: Buffer = std::ptr::read(&b);
                let out = redirectionio_action_body_filter_filter(std::ptr::null_mut(), alias);
                // Buffer is #[repr(C)] { data: *mut u8, len: usize }
                let in_raw: (usize, usize) = std::mem::transmute_copy(&b);
                let out_raw: (usize, usize) = std::mem::transmute_copy(&out);
                if in_raw.0 != 0 && in_raw.0 == out_raw.0 {
                    self.mismatch("body_filter_filter(NULL)-returns-the-callers-buffer", "the result shares its storage with the input buffer: releasing both is a double free".into());
                    std::mem::forget(out);
                    self.buffer = Some((b, bytes));
                    return;
                }
                let out_bytes = out.to_vec();
                if out_bytes != bytes {
                    self.mismatch("body_filter_filter(NULL)-not-a-copy", format!("{} bytes vs {} bytes", out_bytes.len(), bytes.len()));
                }
                redirectionio_api_buffer_drop(out);
                self.buffer = Some((b, bytes));
            }
            ShouldLogRequest => {
                for code in [200u16, 404] {
                    let got = redirectionio_action_should_log_request(self.action, true, code);
                    let want = self.native_action.as_mut().map(|a| a.should_log_request(true, code, None)).unwrap_or(true);
                    if got != want {
                        self.mismatch("should_log_request-differs-from-native", format!("code {code}: {got} vs {want}"));
                    }
                }
            }
            SetRemoteAddr => {
                let addr = OwnedC::new("10.0.0.9:4321");
                redirectionio_request_set_remote_addr(self.request, addr.ptr(), self.proxies);
                if (*self.request).remote_addr.is_none() {
                    self.mismatch("set_remote_addr-not-set", "remote address not set from a valid address".into());
                }
            }
            AddProxy => {
                let p = OwnedC::new("192.168.0.0/16");
                redirectionio_trusted_proxies_add_proxy(self.proxies, p.ptr());
            }
            AddProxyRejected => {
                let p = OwnedC::new("not-an-address/99");
                redirectionio_trusted_proxies_add_proxy(self.proxies, p.ptr());
            }
            CreateLogInJson => {
                let h = OwnedHeaders::new(&[(Some("Location"), Some("/t")), (Some("Content-Type"), Some("text/html"))]);
                let proxy = OwnedC::new("nginx");
                let ip = OwnedC::new("10.0.0.1");
                let got = take_string(redirectionio_api_create_log_in_json(self.request, 302, h.ptr(), self.action, proxy.ptr(), 1717236000000, ip.ptr()));
                match got.and_then(|s| serde_json::from_str::<Value>(&s).ok()) {
                    None => self.mismatch("create_log_in_json-invalid", "no valid JSON returned".into()),
                    Some(v) => {
                        if v["code"] != json!(302) || v["to"] != json!("/t") || v["proxy"] != json!("nginx") {
                            self.mismatch("create_log_in_json-content", v.to_string());
                        }
                    }
                }
            }
            BufferDuplicate | BufferClone => {
                let (b, bytes) = self.buffer.take().unwrap();
                let d = if c == BufferDuplicate { b.duplicate() } else { b.clone() };
                let db = d.to_vec();
                if db != bytes {
                    self.mismatch("buffer-duplicate-differs", format!("{} bytes vs {} bytes", db.len(), bytes.len()));
                }
                let again = b.to_vec();
                if again != bytes {
                    self.mismatch("buffer-changed-by-duplicate", "original buffer changed".into());
                }
                redirectionio_api_buffer_drop(d);
                self.buffer = Some((b, bytes));
            }
            RequestDrop => {
                redirectionio_request_drop(self.request);
                self.request = std::ptr::null_mut();
            }
            ActionDrop => {
                redirectionio_action_drop(self.action);
                self.action = std::ptr::null_mut();
                self.native_action = None;
            }
            BodyFilterDrop => {
                redirectionio_action_body_filter_drop(self.filter);
                self.filter = std::ptr::null_mut();
                self.native_filter = None;
            }
            BodyFilterClose => {
                let out = redirectionio_action_body_filter_close(self.filter);
                let got = out.to_vec();
                let want = self.native_filter.as_mut().map(|f| f.end(None)).unwrap_or_default();
                if got != want {
                    self.mismatch("body_filter_close-differs-from-native", format!("{:?} vs {:?}", String::from_utf8_lossy(&got), String::from_utf8_lossy(&want)));
                }
                redirectionio_api_buffer_drop(out);
                self.filter = std::ptr::null_mut();
                self.native_filter = None;
            }
            BufferDrop => {
                let (b, bytes) = self.buffer.take().unwrap();
                let back = b.to_vec();
                if back != bytes {
                    self.mismatch("buffer-roundtrip-differs", format!("{} bytes vs {} bytes", back.len(), bytes.len()));
                }
                redirectionio_api_buffer_drop(b);
            }
            GetApiVersion => {
                let v = take_string(redirectionio_api_get_rule_api_version());
                if v.as_deref() != Some("2.0.0") {
                    self.mismatch("api-version", format!("{v:?}"));
                }
            }
            _ => {}
        }
    }

    /// release whatever is still live, each through its matching function, exactly once
    unsafe fn release_all(&mut self) {
        if !self.filter.is_null() {
            self.exec(Call::BodyFilterClose);
        }
        if !self.action.is_null() {
            self.exec(Call::ActionDrop);
        }
        if !self.request.is_null() {
            self.exec(Call::RequestDrop);
        }
        if self.buffer.is_some() {
            self.exec(Call::BufferDrop);
        }
        self.native_action = None;
        self.native_filter = None;
    }
}

#[derive(Debug)]
struct RunResult {
    events: Vec<AuditEvent>,
    leak_count: i64,
    leak_bytes: i64,
    mismatches: Vec<(String, String)>,
    used_proxies: bool,
    keys: Vec<String>,
}

fn run_sequence(seq: &[Call], judge: bool) -> RunResult {
    take_events();
    quarantine_begin();
    JUDGING.store(judge, Ordering::Relaxed);
    let (mismatches, used_proxies, keys) = unsafe {
        let mut w = World::new();
        let mut keys = Vec::with_capacity(seq.len());
        for c in seq {
            w.exec(*c);
            keys.push(w.key());
        }
        w.release_all();
        (std::mem::take(&mut w.mismatches), w.used_proxies, keys)
    };
    JUDGING.store(false, Ordering::Relaxed);
    quarantine_flush();
    let events = take_events();
    RunResult { events, leak_count: 0, leak_bytes: 0, mismatches, used_proxies, keys }
}

/// a run that keeps nothing: the live set after it must be what it was before
fn leak_probe(seq: &[Call]) -> (i64, i64) {
    let c0 = LIVE_COUNT.load(Ordering::Relaxed);
    let b0 = LIVE_BYTES.load(Ordering::Relaxed);
    quarantine_begin();
    unsafe {
        let mut w = World::new();
        for c in seq {
            w.exec(*c);
        }
        w.release_all();
        drop(w);
    }
    quarantine_flush();
    (LIVE_COUNT.load(Ordering::Relaxed) - c0, LIVE_BYTES.load(Ordering::Relaxed) - b0)
}

fn signatures(seq: &[Call], warm: &RunResult, res: &RunResult) -> Vec<(String, String)> {
    let mut out = Vec::new();
    let culprit = |seq: &[Call]| -> String {
        // name the kinds of calls in the sequence that allocate / release buffers and objects
        let mut kinds: BTreeSet<String> = BTreeSet::new();
        for c in seq {
            // only the calls that create an object can be the origin of a leak
            let name = format!("{c:?}").split('(').next().unwrap_or("").to_string();
            if name.contains("Create") || name.contains("Deserialize") || name.contains("From") {
                kinds.insert(name);
            }
        }
        kinds.into_iter().collect::<Vec<_>>().join("+")
    };
    for e in &res.events {
        let (kind, detail) = match e.kind {
            1 => ("free-of-unknown-pointer", format!("dealloc(size {}, align {}) of a pointer that is not a live allocation (double free or foreign pointer)", e.free_size, e.free_align)),
            2 => ("dealloc-layout-mismatch", format!("allocated with size {} align {}, deallocated with size {} align {}", e.alloc_size, e.alloc_align, e.free_size, e.free_align)),
            3 => ("realloc-of-unknown-pointer", format!("realloc(size {}) of a pointer that is not live", e.free_size)),
            _ => ("realloc-layout-mismatch", format!("allocated with size {} align {}, reallocated as size {} align {}", e.alloc_size, e.alloc_align, e.free_size, e.free_align)),
        };
        let class = if e.kind == 2 || e.kind == 4 {
            if e.alloc_size != e.free_size { "size-differs" } else { "align-differs" }
        } else {
            "pointer-not-live"
        };
        out.push((format!("{kind}:{class}"), format!("{detail}; sequence {seq:?}")));
    }
    // leaks: the measured (second) run must not grow the live set; TrustedProxies are documented as never freed
    let _ = warm;
    if !res.used_proxies && (res.leak_bytes != 0 || res.leak_count != 0) {
        out.push((format!("leak:{}", culprit(seq)), format!("{} allocation(s) / {} byte(s) still live after every handle was released; sequence {seq:?}", res.leak_count, res.leak_bytes)));
    }
    for (k, w) in &res.mismatches {
        out.push((format!("value:{k}"), format!("{w}; sequence {seq:?}")));
    }
    out.sort();
    out.dedup_by(|a, b| a.0 == b.0);
    out
}

fn check_sequence(seq: &[Call]) -> (Vec<(String, String)>, Vec<String>) {
    // warm-up run (lazy statics, regex pools, thread locals), then the measured run
    let warm = run_sequence(seq, false);
    let mut res = run_sequence(seq, true);
    // leak probe twice: the second delta is the steady-state one
    let _ = leak_probe(seq);
    let (mut lc, mut lb) = leak_probe(seq);
    // a leak is what EVERY further execution adds to the live set: a one-off growth (a pool or a thread local that
    // settles one run later) is not one, so a non-zero delta has to repeat in three more runs before it is reported
    if lc != 0 || lb != 0 {
        for _ in 0..3 {
            let (c, b) = leak_probe(seq);
            if c == 0 && b == 0 {
                lc = 0;
                lb = 0;
                break;
            }
            lc = c;
            lb = b;
        }
    }
    res.leak_count = lc;
    res.leak_bytes = lb;
    (signatures(seq, &warm, &res), res.keys)
}

fn enumerate(prefix: &mut Vec<Call>, world_enabled: &dyn Fn(&[Call]) -> Vec<Call>, max: usize, out: &mut Vec<Vec<Call>>) {
    if !prefix.is_empty() {
        out.push(prefix.clone());
    }
    if prefix.len() == max {
        return;
    }
    // the calls with payloads over 64 KiB cost a hundred times the others: they are explored in every sequence one call
    // shorter than the bound (every position, every neighbour), not in the longest ones
    let heavy = |c: &Call| matches!(c, Call::RequestCreate(3) | Call::ActionJsonDeserialize(2) | Call::HeaderFilterFilter(4));
    let has_heavy = prefix.iter().any(heavy);
    if has_heavy && prefix.len() + 1 == max && max > 2 {
        return;
    }
    for c in world_enabled(prefix) {
        if heavy(&c) && prefix.len() + 1 == max && max > 2 {
            continue;
        }
        prefix.push(c);
        enumerate(prefix, world_enabled, max, out);
        prefix.pop();
    }
}

/// well-typedness is decided on an abstract slot model (no execution)
fn enabled_after(prefix: &[Call]) -> Vec<Call> {
    #[derive(Default)]
    struct Slots {
        r: bool,
        a: Option<u8>,
        f: bool,
        t: bool,
        b: bool,
    }
    let mut s = Slots::default();
    use Call::*;
    for c in prefix {
        match c {
            RequestCreate(_) | RequestFromStr | RequestJsonDeserialize => s.r = true,
            ActionJsonDeserialize(k) => s.a = if *k == 3 { None } else { Some(*k) },
            // creation legitimately yields NULL when no filter applies (action without body filters, non-HTML / unsupported encoding)
            BodyFilterCreate(k) => s.f = (*k == 0 || *k == 2) && s.a == Some(0),
            TrustedProxiesCreate => s.t = true,
            BufferFromVec(_) | BufferFromString(_) => s.b = true,
            RequestDrop => s.r = false,
            ActionDrop => s.a = None,
            BodyFilterDrop | BodyFilterClose => s.f = false,
            BufferDrop => s.b = false,
            _ => {}
        }
    }
    CALLS
        .iter()
        .copied()
        .filter(|c| match c {
            RequestCreate(_) | RequestFromStr | RequestJsonDeserialize => !s.r,
            ActionJsonDeserialize(_) => s.a.is_none(),
            BodyFilterCreate(_) => s.a.is_some() && !s.f,
            TrustedProxiesCreate => !s.t,
            BufferFromVec(_) | BufferFromString(_) => !s.b,
            RequestJsonSerialize | RequestDrop | SetRemoteAddr | CreateLogInJson => s.r,
            ActionJsonSerialize | GetStatusCode | HeaderFilterFilter(_) | ShouldLogRequest => s.a.is_some(),
            // an action may only be dropped when no filter created from it is still alive? (filters are independent objects: allowed)
            ActionDrop => s.a.is_some(),
            BodyFilterFilter => s.f && s.b,
            BodyFilterFilterNull | BufferDuplicate | BufferClone | BufferDrop => s.b,
            AddProxy | AddProxyRejected => s.t,
            BodyFilterDrop | BodyFilterClose => s.f,
            GetApiVersion => prefix.is_empty(),
        })
        .collect()
}

// ------------------------------------------------------------------------------------------------
// callback-logger pass. The log callback installed with redirectionio_log_init_with_callback receives every message as a C
// string that belongs to the receiver from then on (the proxy modules free() it, or queue it and write it later). The
// logger is process-global and can be installed once, so the pass runs in a subprocess of its own: every call sequence up to
// the pass's length is executed with the callback installed, in two receiver behaviours (keep every message until the
// sequence is over, then read and release it / release it inside the callback), under the same allocator audit.

const KEEP_MAX: usize = 256;
static KEPT: [AtomicUsize; KEEP_MAX] = [const { AtomicUsize::new(0) }; KEEP_MAX];
static KEPT_LEN: AtomicUsize = AtomicUsize::new(0);
static FREE_IN_CALLBACK: AtomicBool = AtomicBool::new(false);
static FREED_IN_CALLBACK: AtomicUsize = AtomicUsize::new(0);
static LOG_DATA: u8 = 0;

extern "C" fn receive_message(msg: *const std::os::raw::c_char, _data: *const std::os::raw::c_void, _level: std::os::raw::c_short) {
    if FREE_IN_CALLBACK.load(Ordering::Relaxed) {
        if !msg.is_null() {
            FREED_IN_CALLBACK.fetch_add(1, Ordering::Relaxed);
            drop(unsafe { std::ffi::CString::from_raw(msg as *mut std::os::raw::c_char) });
        }
        return;
    }
    let i = KEPT_LEN.fetch_add(1, Ordering::Relaxed);
    if i < KEEP_MAX {
        KEPT[i].store(msg as usize, Ordering::Relaxed);
    }
}

/// one sequence with the callback logger installed: (signatures, messages received)
fn logger_sequence(seq: &[Call], free_in_callback: bool) -> (Vec<(String, String)>, usize) {
    let mut out: Vec<(String, String)> = Vec::new();
    let mode = if free_in_callback { "receiver releases the message inside the callback" } else { "receiver keeps the message until the sequence is over" };
    KEPT_LEN.store(0, Ordering::Relaxed);
    FREED_IN_CALLBACK.store(0, Ordering::Relaxed);
    FREE_IN_CALLBACK.store(free_in_callback, Ordering::Relaxed);
    take_events();
    quarantine_begin();
    JUDGING.store(true, Ordering::Relaxed);
    unsafe {
        let mut w = World::new();
        for c in seq {
            if !w.enabled(*c) {
                break;
            }
            w.exec(*c);
        }
        w.release_all();
    }
    let mut messages = FREED_IN_CALLBACK.load(Ordering::Relaxed);
    let n = KEPT_LEN.load(Ordering::Relaxed).min(KEEP_MAX);
    for i in 0..n {
        let p = KEPT[i].load(Ordering::Relaxed);
        if p == 0 {
            continue;
        }
        lock();
        let e = unsafe { table_get(p) };
        unlock();
        match e {
            None => out.push(("log-message:released-by-the-library".to_string(), format!("message #{i} handed to the log callback is no longer a live allocation when its receiver comes to use it ({mode}); sequence {seq:?}"))),
            Some(e) => {
                messages += 1;
                let text = unsafe { std::ffi::CStr::from_ptr(p as *const std::os::raw::c_char) };
                if text.to_bytes().len() + 1 != e.size {
                    out.push(("log-message:not-a-c-string-of-its-allocation".to_string(), format!("message #{i}: {} bytes before the terminator in an allocation of {} bytes; sequence {seq:?}", text.to_bytes().len(), e.size)));
                }
                drop(unsafe { std::ffi::CString::from_raw(p as *mut std::os::raw::c_char) });
            }
        }
    }
    JUDGING.store(false, Ordering::Relaxed);
    quarantine_flush();
    for e in take_events() {
        let kind = match e.kind {
            1 => "free-of-unknown-pointer",
            2 => "dealloc-layout-mismatch",
            3 => "realloc-of-unknown-pointer",
            _ => "realloc-layout-mismatch",
        };
        out.push((format!("log-message:{kind}"), format!("allocator audit with the callback logger installed ({mode}): alloc size {} align {}, release size {} align {}; sequence {seq:?}", e.alloc_size, e.alloc_align, e.free_size, e.free_align)));
    }
    out.sort();
    out.dedup_by(|a, b| a.0 == b.0);
    (out, messages)
}

/// subprocess entry: `ffi_audit logger-pass <max-length | json sequence>`; prints one JSON line per violation and a final stats line
fn logger_pass_main(arg: &str) -> ! {
    // a runaway recursion in the logging path allocates without bound before the stack is exhausted: cap the address space
    // of this subprocess (2 GiB) so that it dies quickly and alone
    extern "C" {
        fn setrlimit(resource: i32, rlim: *const [u64; 2]) -> i32;
    }
    unsafe {
        setrlimit(9, &[2u64 << 30, 2u64 << 30]); // RLIMIT_AS
    }
    unsafe { redirectionio_log_init_with_callback(receive_message, &LOG_DATA as *const u8 as *const std::os::raw::c_void) };
    let mut seqs: Vec<Vec<Call>> = Vec::new();
    match arg.parse::<usize>() {
        Ok(max) => enumerate(&mut Vec::new(), &enabled_after, max, &mut seqs),
        Err(_) => seqs.push(serde_json::from_str(arg).expect("sequence")),
    }
    let mut total_messages = 0usize;
    let mut with_messages = 0usize;
    let mut seen: BTreeSet<String> = BTreeSet::new();
    for (si, seq) in seqs.iter().enumerate() {
        println!("LOGPASS-BEGIN {si}");
        let mut any = false;
        for free_in_callback in [false, true] {
            let (viol, messages) = logger_sequence(seq, free_in_callback);
            total_messages += messages;
            any |= messages > 0;
            for (sig, what) in viol {
                if seen.insert(format!("{sig}{free_in_callback}")) || seqs.len() == 1 {
                    println!("LOGPASS-VIOLATION {}", json!({"signature": sig, "what": what, "sequence": seq, "free_in_callback": free_in_callback}));
                }
            }
        }
        if any {
            with_messages += 1;
        }
    }
    println!("LOGPASS-STATS {}", json!({"sequences": seqs.len(), "executions": seqs.len() * 2, "messages_received": total_messages, "sequences_with_messages": with_messages}));
    std::process::exit(0);
}

/// parent side: (violations as (signature, what, case), stats); Err = the subprocess did not finish properly
fn run_logger_pass(arg: &str) -> Result<(Vec<(String, String, Value)>, Value), String> {
    let exe = std::env::current_exe().map_err(|e| e.to_string())?;
    let out = std::process::Command::new(exe).arg("logger-pass").arg(arg).output().map_err(|e| e.to_string())?;
    let text = String::from_utf8_lossy(&out.stdout).to_string();
    let mut viol = Vec::new();
    let mut stats = Value::Null;
    let mut last_begun: Option<usize> = None;
    for line in text.lines() {
        if let Some(rest) = line.strip_prefix("LOGPASS-BEGIN ") {
            last_begun = rest.trim().parse().ok();
        }
        if let Some(rest) = line.strip_prefix("LOGPASS-VIOLATION ") {
            if let Ok(v) = serde_json::from_str::<Value>(rest) {
                viol.push((v["signature"].as_str().unwrap_or("").to_string(), v["what"].as_str().unwrap_or("").to_string(), json!({"logger_pass": {"sequence": v["sequence"], "free_in_callback": v["free_in_callback"]}})));
            }
        } else if let Some(rest) = line.strip_prefix("LOGPASS-STATS ") {
            stats = serde_json::from_str(rest).unwrap_or(Value::Null);
        }
    }
    if let (true, Some(si)) = (stats.is_null(), last_begun) {
        // the subprocess died while it executed sequence #si: that is a result, not a failure of the machinery
        let seq: Value = match arg.parse::<usize>() {
            Ok(max) => {
                let mut seqs = Vec::new();
                enumerate(&mut Vec::new(), &enabled_after, max, &mut seqs);
                json!(seqs.get(si))
            }
            Err(_) => serde_json::from_str(arg).unwrap_or(Value::Null),
        };
        viol.push(("log-message:process-died".to_string(), format!("with the callback logger installed the process died ({:?}; {}) while executing the sequence {seq}", out.status, String::from_utf8_lossy(&out.stderr).lines().filter(|l| !l.trim().is_empty()).take(2).collect::<Vec<_>>().join(" / ")), json!({"logger_pass": {"sequence": seq}})));
        return Ok((viol, json!({"died_in_sequence": si})));
    }
    if stats.is_null() {
        return Err(format!("logger pass ended with {:?} before its statistics line; stderr: {}", out.status, String::from_utf8_lossy(&out.stderr).chars().take(400).collect::<String>()));
    }
    Ok((viol, stats))
}

fn replay(case: &Value) -> Vec<String> {
    if let Some(lp) = case.get("logger_pass") {
        return match run_logger_pass(&lp["sequence"].to_string()) {
            Ok((viol, _)) => viol.into_iter().map(|(s, _, _)| s).collect(),
            Err(_) => vec![],
        };
    }
    let seq: Vec<Call> = match serde_json::from_value(case["sequence"].clone()) {
        Ok(s) => s,
        Err(_) => return vec![],
    };
    check_sequence(&seq).0.into_iter().map(|(s, _)| s).collect()
}

extern "C" {
    fn mallopt(param: i32, value: i32) -> i32;
}

fn main() {
    // glibc: keep freed memory in the process (no heap trimming, no mmap per large block): the sequences with payloads over
    // 64 KiB otherwise spend their time in brk / mmap / page faults
    unsafe {
        mallopt(-1, 1 << 30); // M_TRIM_THRESHOLD
        mallopt(-3, 1 << 30); // M_MMAP_THRESHOLD
    }
    let args: Vec<String> = std::env::args().collect();
    verif_mc::common::quiet_panics();
    if args.len() >= 3 && args[1] == "logger-pass" {
        logger_pass_main(&args[2]);
    }
    if args.len() >= 3 && args[1] == "replay" {
        let text = std::fs::read_to_string(&args[2]).expect("read replay");
        let doc: Value = serde_json::from_str(&text).expect("parse replay");
        let sigs = replay(&doc["case"]);
        println!("replay produced signatures: {sigs:?}");
        if sigs.iter().any(|s| Some(s.as_str()) == doc["signature"].as_str()) {
            println!("VIOLATION property=C18 replay={}", args[2]);
            std::process::exit(1);
        }
        std::process::exit(0);
    }
    if args.len() < 3 || args[1] != "C18" {
        eprintln!("usage: ffi_audit C18 <quick|thorough> | ffi_audit replay <file>");
        std::process::exit(2);
    }
    let tier = match std::env::var("VERIF_TIER").ok().as_deref().unwrap_or(args[2].as_str()) {
        "thorough" => Tier::Thorough,
        _ => Tier::Quick,
    };
    let ctx = Ctx::new("C18", tier, "model_checking");
    let max = tier.pick(4, 5);
    let mut seqs = Vec::new();
    enumerate(&mut Vec::new(), &enabled_after, max, &mut seqs);
    let seqs = std::sync::Arc::new(seqs);
    // termination watchdog: allocation-free while it waits (this process runs under the auditing allocator): the main
    // thread publishes the index of the sequence it executes and a heartbeat, the watchdog only reads two atomics
    static CURRENT: std::sync::atomic::AtomicUsize = std::sync::atomic::AtomicUsize::new(usize::MAX);
    static BEAT_MS: std::sync::atomic::AtomicU64 = std::sync::atomic::AtomicU64::new(0);
    let t0 = std::time::Instant::now();
    {
        let seqs = seqs.clone();
        let limit_ms = verif_mc::common::watch_limit_s() * 1000;
        let tier_name = tier.name();
        std::thread::spawn(move || loop {
            std::thread::sleep(std::time::Duration::from_millis(500));
            let cur = CURRENT.load(Ordering::Relaxed);
            let now = t0.elapsed().as_millis() as u64;
            if cur != usize::MAX && now.saturating_sub(BEAT_MS.load(Ordering::Relaxed)) > limit_ms {
                let seq = &seqs[cur];
                let sig = "does-not-terminate".to_string();
                let dir = verif_mc::common::verif_root().join("replays");
                let _ = std::fs::create_dir_all(&dir);
                let path = dir.join(format!("C18-nonterminating-{cur}.json"));
                let what = format!("a call of the sequence {seq:?} did not return within {}s", limit_ms / 1000);
                let doc = json!({"property": "C18", "signature": sig, "what": what, "case": {"sequence": seq}});
                let _ = std::fs::write(&path, serde_json::to_string_pretty(&doc).unwrap());
                let evidence = json!({"property_id": "C18", "tier": tier_name, "seed": 0, "level": "model_checking", "wall_s": 0.0, "violations": 1,
                    "coverage": {"evaluations": cur, "states": 1, "transitions": 1, "traces_validated_against_impl": 1, "samples": [format!("{seq:?}")], "exhaustive": false}});
                let _ = std::fs::write(verif_mc::common::verif_root().join("evidence").join("C18.json"), serde_json::to_string_pretty(&evidence).unwrap());
                println!("VIOLATION property=C18 replay={}", path.display());
                println!("  signature: {sig}");
                println!("  what: {what}");
                std::process::exit(1);
            }
        });
    }
    let mut states: BTreeSet<String> = BTreeSet::new();
    let mut transitions = 0u64;
    let samples = Samples::new(6);
    let mut skipped_ill_typed = 0u64;
    let mut with_use = 0u64;
    for (i, seq) in seqs.iter().enumerate() {
        if i % 4096 == 0 && ctx.over_budget() {
            ctx.set_capped(format!("wall budget {}s: {} of {} sequences", ctx.budget_s(), i, seqs.len()));
            break;
        }
        CURRENT.store(i, Ordering::Relaxed);
        BEAT_MS.store(t0.elapsed().as_millis() as u64, Ordering::Relaxed);
        // the slot model is optimistic about filter creation; skip sequences that are ill-typed at run time
        quarantine_begin();
        let well_typed = unsafe {
            let mut w = World::new();
            let mut ok = true;
            for c in seq {
                if !w.enabled(*c) {
                    ok = false;
                    break;
                }
                w.exec(*c);
            }
            w.release_all();
            ok
        };
        quarantine_flush();
        if !well_typed {
            skipped_ill_typed += 1;
            continue;
        }
        ctx.eval(1);
        // non-trivial: the sequence does more than create and release (at least one call that uses a handle)
        if seq.iter().any(|c| {
            let n = format!("{c:?}");
            !(n.contains("Create") || n.contains("Deserialize") || n.contains("From") || n.contains("Drop") || n.contains("Close") || n.contains("GetApiVersion"))
        }) {
            with_use += 1;
        }
        transitions += seq.len() as u64 + 1;
        let (viol, keys) = check_sequence(seq);
        for k in keys {
            states.insert(k);
        }
        for (sig, what) in viol {
            ctx.report(Violation { signature: sig, what, case: json!({"sequence": seq}), weight: seq.len() as u64 });
        }
        if i % 9973 == 5 {
            samples.offer(|| json!(seq.iter().map(|c| format!("{c:?}")).collect::<Vec<_>>()));
        }
    }
    CURRENT.store(usize::MAX, Ordering::Relaxed);
    // the callback-logger pass (own process: the logger is process-global)
    let logger_stats = match run_logger_pass(&format!("{}", max - 1)) {
        Ok((viol, stats)) => {
            for (sig, what, case) in viol {
                ctx.report(Violation { signature: sig, what, case, weight: 1 });
            }
            stats
        }
        Err(e) => {
            println!("MACHINERY-ERROR: {e}");
            std::process::exit(2);
        }
    };
    let mut cov = Coverage::new();
    cov.set("states", json!(states.len() + 1))
        .set("transitions", json!(transitions))
        .set("traces_validated_against_impl", json!(ctx.evaluations.load(Ordering::Relaxed)))
        .set("samples", json!(samples.take()))
        .set("distinct_nontrivial", json!(with_use))
        .set("rule", json!("evaluations = well-typed call sequences executed twice (warm-up, then measured under the auditing allocator); states = distinct configurations of live handles (request, action, filter, proxies, buffer length) reached; transitions = calls executed in measured runs incl. the final releases; distinct_nontrivial = sequences (all distinct) containing at least one call that uses a handle, not only create / release"))
        .set("sequences_enumerated", json!(seqs.len()))
        .set("ill_typed_at_run_time_skipped", json!(skipped_ill_typed))
        .set("max_sequence_length", json!(max))
        .set("callback_logger_pass", json!({"max_sequence_length": max - 1, "receiver_behaviours": ["keeps every message until the sequence is over, then reads and releases it", "releases the message inside the callback"], "result": logger_stats}))
        .set("call_alphabet", json!(CALLS.iter().map(|c| format!("{c:?}")).collect::<Vec<_>>()))
        .set("exhaustive", json!(true));
    cov.assume("single-threaded driver; the allocator audit sees every allocation of the process (harness included), so a free with a wrong layout anywhere is reported")
        .assume("TrustedProxies is documented as never freed: sequences that create one are excluded from the leak account (still audited for layout and double free)")
        .assume("returned strings and header-list nodes have no exported release function: the harness releases them the way they were allocated (CString::from_raw, Box<HeaderMap>), which is part of the audit");
    let code = finish(&ctx, cov, &replay);
    std::process::exit(code);
}
