fn main() {}
