//! Effect alphabet for the action properties (C05, C06, C11): rule shapes = condition x control x payload,
//! the declarative reference fold, and the observation vector of an `Action`.

use crate::props::c13::reference_apply;
use redirectionio::action::Action;
use redirectionio::api::Rule;
use redirectionio::http::{Header, Request};
use redirectionio::router::{IntoRoute, Route};
use redirectionio::RouterConfig;
use serde::{Deserialize, Serialize};
use serde_json::{json, Value};
use std::collections::BTreeSet;
use std::sync::Arc;

#[derive(Clone, Copy, Debug, Serialize, Deserialize, PartialEq, Eq, Hash, PartialOrd, Ord)]
pub enum Cond {
    None,
    Include404,
    Exclude404,
    /// written [500, 404] in the rule: code lists are sets, not sorted sequences
    Include404_500,
    /// excluded codes written [500, 404]
    Exclude500_404,
    /// [404] with the exclusion flag written out as `false` (a plain include list)
    Include404FlagFalse,
}

#[derive(Clone, Copy, Debug, Serialize, Deserialize, PartialEq, Eq, Hash, PartialOrd, Ord)]
pub enum Control {
    Plain,
    Reset,
    Stop,
    ResetStop,
    Sampling0,
    Sampling100,
    // sampling combined with reset / stop: a sampled-out rule must neither reset nor stop
    ResetSampling0,
    ResetSampling100,
    StopSampling0,
    StopSampling100,
    ResetStopSampling0,
    ResetStopSampling100,
}

#[derive(Clone, Copy, Debug, Serialize, Deserialize, PartialEq, Eq, Hash, PartialOrd, Ord)]
pub enum Payload {
    Redirect301,
    Status404,
    HeaderAdd,
    BodyAppend,
    LogTrue,
    LogFalse,
    Everything,
    /// an `override` filter on one header name shared by every rule (conflicting rewrites of the same header)
    HeaderOverrideShared,
    /// a redirect whose rule also carries a filter of its own on the Location header (spelled `location`): the target sets the
    /// header first, the rule's own filter then rewrites it
    RedirectAndLocationReplace,
    /// the SAME override (header X-Shared, value "same") whichever rule carries it: two matched rules then hold identical filters
    HeaderOverrideSame,
}

pub const CONDS: [Cond; 6] = [Cond::None, Cond::Include404, Cond::Exclude404, Cond::Include404_500, Cond::Exclude500_404, Cond::Include404FlagFalse];
pub const CONTROLS: [Control; 12] = [
    Control::Plain,
    Control::Reset,
    Control::Stop,
    Control::ResetStop,
    Control::Sampling0,
    Control::Sampling100,
    Control::ResetSampling0,
    Control::ResetSampling100,
    Control::StopSampling0,
    Control::StopSampling100,
    Control::ResetStopSampling0,
    Control::ResetStopSampling100,
];
pub const PAYLOADS: [Payload; 10] = [
    Payload::Redirect301,
    Payload::Status404,
    Payload::HeaderAdd,
    Payload::BodyAppend,
    Payload::LogTrue,
    Payload::LogFalse,
    Payload::Everything,
    Payload::HeaderOverrideShared,
    Payload::RedirectAndLocationReplace,
    Payload::HeaderOverrideSame,
];

#[derive(Clone, Copy, Debug, Serialize, Deserialize, PartialEq, Eq, Hash, PartialOrd, Ord)]
pub struct Shape {
    pub cond: Cond,
    pub control: Control,
    pub payload: Payload,
}

pub fn all_shapes() -> Vec<Shape> {
    let mut v = Vec::new();
    for payload in PAYLOADS {
        for control in CONTROLS {
            for cond in CONDS {
                v.push(Shape { cond, control, payload });
            }
        }
    }
    v
}

/// a 40-shape core: every value of every field, and the combinations the merge logic distinguishes
pub fn core_shapes() -> Vec<Shape> {
    let mut v = Vec::new();
    for payload in [Payload::Redirect301, Payload::Status404, Payload::LogTrue, Payload::LogFalse, Payload::Everything] {
        for cond in [Cond::None, Cond::Include404, Cond::Exclude404] {
            v.push(Shape { cond, control: Control::Plain, payload });
        }
    }
    for payload in [Payload::Redirect301, Payload::Everything, Payload::HeaderAdd] {
        for control in [Control::Reset, Control::Stop, Control::ResetStop, Control::Sampling0, Control::Sampling100] {
            v.push(Shape { cond: Cond::None, control, payload });
        }
    }
    for cond in CONDS {
        v.push(Shape { cond, control: Control::Plain, payload: Payload::HeaderAdd });
        v.push(Shape { cond, control: Control::Plain, payload: Payload::BodyAppend });
    }
    for cond in [Cond::None, Cond::Include404, Cond::Exclude404] {
        v.push(Shape { cond, control: Control::Plain, payload: Payload::HeaderOverrideShared });
    }
    for control in [Control::ResetSampling0, Control::StopSampling0, Control::ResetSampling100, Control::ResetStopSampling0] {
        v.push(Shape { cond: Cond::None, control, payload: Payload::Everything });
    }
    v.push(Shape { cond: Cond::Include404_500, control: Control::Reset, payload: Payload::Status404 });
    v.push(Shape { cond: Cond::Include404, control: Control::Stop, payload: Payload::Status404 });
    for payload in [Payload::Redirect301, Payload::LogFalse, Payload::Everything] {
        v.push(Shape { cond: Cond::Include404FlagFalse, control: Control::Plain, payload });
    }
    for cond in [Cond::None, Cond::Include404] {
        v.push(Shape { cond, control: Control::Plain, payload: Payload::RedirectAndLocationReplace });
        v.push(Shape { cond, control: Control::Plain, payload: Payload::HeaderOverrideSame });
    }
    v.sort();
    v.dedup();
    v
}

impl Shape {
    pub fn codes(&self) -> Vec<u16> {
        match self.cond {
            Cond::None => vec![],
            Cond::Include404 | Cond::Exclude404 | Cond::Include404FlagFalse => vec![404],
            Cond::Include404_500 | Cond::Exclude500_404 => vec![500, 404],
        }
    }
    pub fn exclude(&self) -> bool {
        matches!(self.cond, Cond::Exclude404 | Cond::Exclude500_404)
    }
    pub fn admits(&self, c: u16) -> bool {
        match self.cond {
            Cond::None => true,
            Cond::Include404 | Cond::Include404FlagFalse => c == 404,
            Cond::Exclude404 => c != 404,
            Cond::Include404_500 => c == 404 || c == 500,
            Cond::Exclude500_404 => c != 404 && c != 500,
        }
    }
    pub fn conditional(&self) -> bool {
        self.cond != Cond::None
    }
    pub fn reset(&self) -> bool {
        matches!(
            self.control,
            Control::Reset | Control::ResetStop | Control::ResetSampling0 | Control::ResetSampling100 | Control::ResetStopSampling0 | Control::ResetStopSampling100
        )
    }
    pub fn stop(&self) -> bool {
        matches!(
            self.control,
            Control::Stop | Control::ResetStop | Control::StopSampling0 | Control::StopSampling100 | Control::ResetStopSampling0 | Control::ResetStopSampling100
        )
    }
    pub fn sampling(&self) -> Option<u32> {
        match self.control {
            Control::Sampling0 | Control::ResetSampling0 | Control::StopSampling0 | Control::ResetStopSampling0 => Some(0),
            Control::Sampling100 | Control::ResetSampling100 | Control::StopSampling100 | Control::ResetStopSampling100 => Some(100),
            _ => None,
        }
    }
    pub fn status(&self) -> Option<u16> {
        match self.payload {
            Payload::Redirect301 | Payload::RedirectAndLocationReplace => Some(301),
            Payload::Status404 => Some(404),
            Payload::Everything => Some(302),
            _ => None,
        }
    }
    pub fn target(&self, id: &str) -> Option<String> {
        match self.payload {
            Payload::Redirect301 | Payload::Everything | Payload::RedirectAndLocationReplace => Some(format!("/t-{id}")),
            _ => None,
        }
    }
    pub fn header_add(&self, id: &str) -> Option<(String, String)> {
        match self.payload {
            Payload::HeaderAdd | Payload::Everything => Some((format!("X-{id}"), format!("v{id}"))),
            _ => None,
        }
    }
    pub fn header_override_shared(&self, id: &str) -> Option<(String, String)> {
        match self.payload {
            Payload::HeaderOverrideShared => Some(("X-Shared".to_string(), format!("s{id}"))),
            Payload::HeaderOverrideSame => Some(("X-Shared".to_string(), "same".to_string())),
            _ => None,
        }
    }
    pub fn header_replace_location(&self, id: &str) -> Option<(String, String)> {
        match self.payload {
            Payload::RedirectAndLocationReplace => Some(("location".to_string(), format!("/own-{id}"))),
            _ => None,
        }
    }
    pub fn body_append(&self, id: &str) -> Option<String> {
        match self.payload {
            Payload::BodyAppend | Payload::Everything => Some(format!("[{id}]")),
            _ => None,
        }
    }
    pub fn log(&self) -> Option<bool> {
        match self.payload {
            Payload::LogTrue => Some(true),
            Payload::LogFalse | Payload::Everything => Some(false),
            _ => None,
        }
    }

    pub fn to_rule_json(&self, id: &str, rank: u16, path: &str) -> Value {
        let codes = self.codes();
        json!({
            "id": id,
            "source": {
                "scheme": null, "host": null, "ips": null, "path": path, "query": null, "headers": null, "methods": null, "exclude_methods": null,
                "response_status_codes": if codes.is_empty() { Value::Null } else { json!(codes) },
                "exclude_response_status_codes": if self.exclude() { json!(true) } else if self.cond == Cond::Include404FlagFalse { json!(false) } else { Value::Null },
                "sampling": self.sampling(),
            },
            "target": self.target(id),
            "status_code": self.status(),
            "rank": rank,
            "body_filters": self.body_append(id).map(|c| json!([{"action": "append_text", "content": c, "id": format!("bu-{id}"), "target_hash": format!("bth-{id}")}])),
            "header_filters": match (self.header_add(id), self.header_override_shared(id)) {
                _ if self.header_replace_location(id).is_some() => json!([{"action": "replace", "header": "location", "value": format!("/own-{id}"), "id": format!("hu-{id}"), "target_hash": null}]),
                (Some((n, v)), _) => json!([{"action": "add", "header": n, "value": v, "id": format!("hu-{id}"), "target_hash": format!("hth-{id}")}]),
                (_, Some((n, v))) => json!([{"action": "override", "header": n, "value": v, "id": null, "target_hash": null}]),
                _ => Value::Null,
            },
            "log_override": self.log(),
            "reset": if self.reset() { json!(true) } else { Value::Null },
            "stop": if self.stop() { json!(true) } else { Value::Null },
            "examples": null,
            // unit ids are present so that the unit-trace paths run; they must not change any observable effect
            "redirect_unit_id": format!("ru-{id}"), "configuration_log_unit_id": format!("lu-{id}"), "configuration_reset_unit_id": format!("cu-{id}"), "target_hash": format!("th-{id}"),
        })
    }

    pub fn to_rule(&self, id: &str, rank: u16, path: &str) -> Rule {
        serde_json::from_value(self.to_rule_json(id, rank, path)).expect("shape rule")
    }
}

/// mixed letter case on purpose: byte order and case-folded order disagree ("B" < "a" but "b" > "a")
pub const IDS: [&str; 5] = ["a", "B", "c", "D", "e"];
/// 204 / 304: responses without a body (the action is asked all the same)
pub const CODES: [u16; 6] = [0, 200, 404, 500, 204, 304];
pub const OVERRIDES: [Option<bool>; 3] = [None, Some(true), Some(false)];

/// rank patterns: 0 = all distinct (first listed = highest), 1 = all tied, 2 = first two tied, 3 = ascending
pub fn rank_of(pattern: usize, pos: usize) -> u16 {
    match pattern {
        0 => 10 - pos as u16,
        1 => 5,
        2 => {
            if pos < 2 {
                9
            } else {
                8 - pos as u16
            }
        }
        _ => 1 + pos as u16,
    }
}

#[derive(Clone, Debug, PartialEq, Eq)]
pub struct Obs {
    pub status: u16,
    pub headers: Vec<(String, String)>,
    pub rule_ids_header: BTreeSet<String>,
    pub body: Vec<u8>,
    pub log_true: bool,
    pub log_false: bool,
    pub applied: BTreeSet<String>,
}

pub fn base_headers() -> Vec<(String, String)> {
    vec![("Location".into(), "orig".into()), ("A".into(), "1".into()), ("x-shared".into(), "o".into())]
}
pub const PROBE_BODY: &[u8] = b"<html><body>B</body></html>";

/// observe an action for one response code (on a clone; the observers mutate the applied-rule list)
pub fn observe_action(action: &Action, c: u16) -> Obs {
    let mut a = action.clone();
    let status = a.get_status_code(c, None);
    let hdrs: Vec<Header> = base_headers().into_iter().map(|(name, value)| Header { name, value }).collect();
    let headers: Vec<(String, String)> = a.filter_headers(hdrs.clone(), c, false, None).into_iter().map(|h| (h.name, h.value)).collect();
    let body = match a.create_filter_body(c, &[]) {
        None => PROBE_BODY.to_vec(),
        Some(mut f) => {
            let mut out = f.filter(PROBE_BODY.to_vec(), None);
            out.extend(f.end(None));
            out
        }
    };
    let log_true = a.should_log_request(true, c, None);
    let log_false = a.should_log_request(false, c, None);
    let applied: BTreeSet<String> = a.get_applied_rule_ids().iter().cloned().collect();
    // the rule-ids header reflects the applied list at the time of the call: take it last so that it is the full list
    let with_ids = a.filter_headers(hdrs, c, true, None);
    let rule_ids_header: BTreeSet<String> = with_ids
        .iter()
        .filter(|h| h.name == "X-RedirectionIo-RuleIds")
        .flat_map(|h| h.value.split(';').filter(|s| !s.is_empty()).map(|s| s.to_string()).collect::<Vec<_>>())
        .collect();
    Obs { status, headers, rule_ids_header, body, log_true, log_false, applied }
}

/// Same observation with a `UnitTrace` handed to every call that accepts one (what the explain / test-example
/// analyses do); returns the observation and the rule ids the trace recorded. The trace must never change an effect.
pub fn observe_action_traced(action: &Action, c: u16) -> (Obs, BTreeSet<String>) {
    use redirectionio::action::UnitTrace;
    let mut a = action.clone();
    let mut trace = UnitTrace::default();
    let status = a.get_status_code(c, Some(&mut trace));
    let hdrs: Vec<Header> = base_headers().into_iter().map(|(name, value)| Header { name, value }).collect();
    let headers: Vec<(String, String)> = a.filter_headers(hdrs.clone(), c, false, Some(&mut trace)).into_iter().map(|h| (h.name, h.value)).collect();
    let body = match a.create_filter_body(c, &[]) {
        None => PROBE_BODY.to_vec(),
        Some(mut f) => {
            let mut out = f.filter(PROBE_BODY.to_vec(), Some(&mut trace));
            out.extend(f.end(Some(&mut trace)));
            out
        }
    };
    let log_true = a.should_log_request(true, c, Some(&mut trace));
    let log_false = a.should_log_request(false, c, Some(&mut trace));
    let applied: BTreeSet<String> = a.get_applied_rule_ids().iter().cloned().collect();
    let with_ids = a.filter_headers(hdrs, c, true, Some(&mut trace));
    let rule_ids_header: BTreeSet<String> = with_ids
        .iter()
        .filter(|h| h.name == "X-RedirectionIo-RuleIds")
        .flat_map(|h| h.value.split(';').filter(|s| !s.is_empty()).map(|s| s.to_string()).collect::<Vec<_>>())
        .collect();
    let traced: BTreeSet<String> = trace.get_rule_ids_applied().iter().cloned().collect();
    (Obs { status, headers, rule_ids_header, body, log_true, log_false, applied }, traced)
}

/// ids of the rules that contribute, in application order (rank descending, ties by id descending; after sampling / reset / stop)
pub fn surviving_order(rules: &[(String, u16, Shape)], sampling_override: Option<bool>) -> Vec<String> {
    surviving(rules, sampling_override).into_iter().map(|r| r.0.clone()).collect()
}

fn surviving(rules: &[(String, u16, Shape)], sampling_override: Option<bool>) -> Vec<&(String, u16, Shape)> {
    // priority order: rank descending, ties by id descending
    let mut sorted: Vec<&(String, u16, Shape)> = rules.iter().collect();
    sorted.sort_by(|a, b| b.1.cmp(&a.1).then(b.0.cmp(&a.0)));
    // survivors after sampling / reset / stop
    let mut surviving: Vec<&(String, u16, Shape)> = Vec::new();
    for r in sorted {
        let sampled_in = match (r.2.sampling(), sampling_override) {
            (None, _) => true,
            (Some(_), Some(false)) => false,
            (Some(_), Some(true)) => true,
            (Some(rate), None) => rate >= 100,
        };
        if !sampled_in {
            continue;
        }
        if r.2.reset() {
            surviving.clear();
        }
        surviving.push(r);
        if r.2.stop() {
            break;
        }
    }
    surviving
}

/// The declarative reference: what the statement says the action must do for response code c.
pub fn reference_obs(rules: &[(String, u16, Shape)], sampling_override: Option<bool>, c: u16) -> Obs {
    let surviving = surviving(rules, sampling_override);
    // status code
    let status_rules: Vec<&&(String, u16, Shape)> = surviving.iter().filter(|r| r.2.status().is_some()).collect();
    let status = match status_rules.last() {
        None => 0,
        Some(n) => {
            let code = n.2.status().unwrap();
            if !n.2.conditional() {
                if c == 0 {
                    code
                } else {
                    0
                }
            } else if n.2.admits(c) {
                code
            } else if c != 0 {
                // fallback: the status rule right before N, when that one is unconditional
                if status_rules.len() >= 2 {
                    let prev = status_rules[status_rules.len() - 2];
                    if !prev.2.conditional() {
                        prev.2.status().unwrap()
                    } else {
                        0
                    }
                } else {
                    0
                }
            } else {
                0
            }
        }
    };
    // headers
    let mut headers = base_headers();
    for r in &surviving {
        if !r.2.admits(c) {
            continue;
        }
        if let Some(t) = r.2.target(&r.0) {
            headers = reference_apply("override", "Location", &t, headers);
        }
        if let Some((n, v)) = r.2.header_add(&r.0) {
            headers = reference_apply("add", &n, &v, headers);
        }
        if let Some((n, v)) = r.2.header_override_shared(&r.0) {
            headers = reference_apply("override", &n, &v, headers);
        }
        if let Some((n, v)) = r.2.header_replace_location(&r.0) {
            headers = reference_apply("replace", &n, &v, headers);
        }
    }
    // body
    let mut body = PROBE_BODY.to_vec();
    for r in &surviving {
        if r.2.admits(c) {
            if let Some(content) = r.2.body_append(&r.0) {
                body.extend_from_slice(content.as_bytes());
            }
        }
    }
    // log
    let log_rules: Vec<&&(String, u16, Shape)> = surviving.iter().filter(|r| r.2.log().is_some()).collect();
    let log_decision: Option<bool> = match log_rules.last() {
        None => None,
        Some(l) => {
            if l.2.admits(c) {
                l.2.log()
            } else if log_rules.len() >= 2 && !log_rules[log_rules.len() - 2].2.conditional() {
                log_rules[log_rules.len() - 2].2.log()
            } else {
                None
            }
        }
    };
    let applied: BTreeSet<String> = surviving.iter().filter(|r| r.2.admits(c)).map(|r| r.0.clone()).collect();
    Obs {
        status,
        headers,
        rule_ids_header: applied.clone(),
        body,
        log_true: log_decision.unwrap_or(true),
        log_false: log_decision.unwrap_or(false),
        applied,
    }
}

pub fn request_for(rc: &RouterConfig, path: &str, sampling_override: Option<bool>) -> Request {
    let mut r = Request::from_config(rc, path.to_string(), Some("h.example".into()), Some("https".into()), None, None, sampling_override);
    r.created_at = None;
    r
}

pub fn routes_of(rules: &[Rule], rc: &RouterConfig) -> Vec<Arc<Route<Rule>>> {
    rules.iter().map(|r| Arc::new(r.clone().into_route(rc))).collect()
}

/// first field in which two observations differ
pub fn diff_field(a: &Obs, b: &Obs) -> &'static str {
    if a.status != b.status {
        "status"
    } else if a.headers != b.headers {
        "headers"
    } else if a.body != b.body {
        "body"
    } else if a.log_true != b.log_true || a.log_false != b.log_false {
        "log"
    } else if a.applied != b.applied {
        "applied-ids"
    } else if a.rule_ids_header != b.rule_ids_header {
        "rule-ids-header"
    } else {
        "none"
    }
}
