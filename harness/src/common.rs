//! Context, violation sink, known-findings handling, evidence writer, small parallel helpers.

use serde_json::{json, Value};
use std::collections::BTreeMap;
use std::io::Write;
use std::path::PathBuf;
use std::sync::atomic::{AtomicU64, AtomicUsize, Ordering};
use std::sync::Mutex;
use std::time::Instant;

#[derive(Clone, Copy, Debug, PartialEq, Eq)]
pub enum Tier {
    Quick,
    Thorough,
}

impl Tier {
    pub fn name(&self) -> &'static str {
        match self {
            Tier::Quick => "quick",
            Tier::Thorough => "thorough",
        }
    }
    pub fn pick<T>(&self, quick: T, thorough: T) -> T {
        match self {
            Tier::Quick => quick,
            Tier::Thorough => thorough,
        }
    }
}

pub fn verif_root() -> PathBuf {
    std::env::var("VERIF_ROOT").map(PathBuf::from).unwrap_or_else(|_| PathBuf::from("/verif"))
}

/// One counterexample: a narrow deterministic signature plus the replayable case.
#[derive(Clone, Debug)]
pub struct Violation {
    pub signature: String,
    pub what: String,
    pub case: Value,
    /// smaller = simpler; the simplest case per signature is kept
    pub weight: u64,
}

pub struct Ctx {
    pub prop: &'static str,
    pub tier: Tier,
    pub seed: u64,
    pub start: Instant,
    pub level: &'static str,
    sink: Mutex<BTreeMap<String, (Violation, u64)>>,
    pub evaluations: AtomicU64,
    pub threads: usize,
    /// set when a wall / memory cap stopped the enumeration before its bound
    pub capped: Mutex<Option<String>>,
}

impl Ctx {
    pub fn new(prop: &'static str, tier: Tier, level: &'static str) -> Self {
        let seed = std::env::var("VERIF_SEED").ok().and_then(|s| s.parse::<u64>().ok()).unwrap_or(0);
        let threads = std::env::var("VERIF_THREADS")
            .ok()
            .and_then(|s| s.parse::<usize>().ok())
            .unwrap_or_else(|| std::thread::available_parallelism().map(|n| n.get()).unwrap_or(4))
            .clamp(1, 64);
        Ctx {
            prop,
            tier,
            seed,
            start: Instant::now(),
            level,
            sink: Mutex::new(BTreeMap::new()),
            evaluations: AtomicU64::new(0),
            threads,
            capped: Mutex::new(None),
        }
    }

    pub fn eval(&self, n: u64) {
        self.evaluations.fetch_add(n, Ordering::Relaxed);
    }

    pub fn report(&self, v: Violation) {
        let mut sink = self.sink.lock().unwrap();
        match sink.get_mut(&v.signature) {
            None => {
                sink.insert(v.signature.clone(), (v, 1));
            }
            Some((old, n)) => {
                *n += 1;
                if v.weight < old.weight || (v.weight == old.weight && v.case.to_string() < old.case.to_string()) {
                    *old = v;
                }
            }
        }
    }

    pub fn violation_count(&self) -> usize {
        self.sink.lock().unwrap().len()
    }

    pub fn signatures(&self) -> Vec<String> {
        self.sink.lock().unwrap().keys().cloned().collect()
    }

    pub fn has_signature(&self, sig: &str) -> bool {
        self.sink.lock().unwrap().contains_key(sig)
    }

    pub fn wall_s(&self) -> f64 {
        self.start.elapsed().as_secs_f64()
    }

    pub fn set_capped(&self, why: String) {
        let mut c = self.capped.lock().unwrap();
        if c.is_none() {
            *c = Some(why);
        }
    }

    /// Wall-clock budget (seconds) for the enumeration of this tier; engines consult it between
    /// shards and report `exhaustive:false` with the completed prefix when it is exceeded.
    pub fn budget_s(&self) -> f64 {
        if let Ok(s) = std::env::var("VERIF_BUDGET_S") {
            if let Ok(v) = s.parse::<f64>() {
                return v;
            }
        }
        self.tier.pick(600.0, 6000.0)
    }

    pub fn over_budget(&self) -> bool {
        self.wall_s() > self.budget_s()
    }
}

#[derive(Debug, Clone)]
pub struct KnownFinding {
    pub property: String,
    pub signature: String,
    pub status: String,
    pub what_fails: String,
}

pub fn load_known_findings() -> Vec<KnownFinding> {
    let path = verif_root().join("known_findings.json");
    let text = match std::fs::read_to_string(&path) {
        Ok(t) => t,
        Err(_) => return Vec::new(),
    };
    let v: Value = match serde_json::from_str(&text) {
        Ok(v) => v,
        Err(e) => {
            eprintln!("MACHINERY-ERROR: known_findings.json does not parse: {e}");
            std::process::exit(2);
        }
    };
    let mut out = Vec::new();
    if let Some(list) = v.get("findings").and_then(|f| f.as_array()) {
        for f in list {
            out.push(KnownFinding {
                property: f.get("property").and_then(|x| x.as_str()).unwrap_or("").to_string(),
                signature: f.get("signature").and_then(|x| x.as_str()).unwrap_or("").to_string(),
                status: f.get("status").and_then(|x| x.as_str()).unwrap_or("").to_string(),
                what_fails: f.get("what_fails").and_then(|x| x.as_str()).unwrap_or("").to_string(),
            });
        }
    }
    out
}

fn fnv(s: &str) -> u64 {
    let mut h: u64 = 0xcbf29ce484222325;
    for b in s.as_bytes() {
        h ^= *b as u64;
        h = h.wrapping_mul(0x100000001b3);
    }
    h
}

/// Coverage description written to the evidence file.
#[derive(Default)]
pub struct Coverage {
    pub fields: serde_json::Map<String, Value>,
    pub assumptions: Vec<String>,
}

impl Coverage {
    pub fn new() -> Self {
        Self::default()
    }
    pub fn set(&mut self, key: &str, v: Value) -> &mut Self {
        self.fields.insert(key.to_string(), v);
        self
    }
    pub fn assume(&mut self, s: &str) -> &mut Self {
        self.assumptions.push(s.to_string());
        self
    }
}

/// Finish a run: write replays, print KNOWN-FINDING / VIOLATION lines, write evidence, return exit code.
///
/// `recheck` re-executes a recorded case and returns the signatures it produces; every violation is
/// replayed twice before it is reported, and a replay that does not reproduce is a machinery error.
pub fn finish(ctx: &Ctx, mut cov: Coverage, recheck: &dyn Fn(&Value) -> Vec<String>) -> i32 {
    let known = load_known_findings();
    let sink = ctx.sink.lock().unwrap();
    let mut new_violations = 0;
    let mut known_hits = 0;
    let mut machinery_error = false;
    let replay_dir = verif_root().join("replays");
    let _ = std::fs::create_dir_all(&replay_dir);
    let mut violation_summaries = Vec::new();
    // second exploration after a violation that did not reproduce in isolation (see below)
    let confirm_path = replay_dir.join(format!("{}.confirm", ctx.prop));
    let confirm_mode = std::env::var("VERIF_CONFIRM").is_ok();
    let confirm_list: Vec<String> = if confirm_mode {
        std::fs::read_to_string(&confirm_path).ok().and_then(|t| serde_json::from_str::<Vec<String>>(&t).ok()).unwrap_or_default()
    } else {
        Vec::new()
    };
    let mut pending_confirm: Vec<String> = Vec::new();
    // second exploration only: signatures that do not reproduce alone and were not reported by the first exploration
    let mut late_unconfirmed: Vec<String> = Vec::new();

    for (sig, (v, count)) in sink.iter() {
        let mut history_dependent = false;
        let mut replay_doc = json!({
            "property": ctx.prop,
            "signature": sig,
            "what": v.what,
            "case": v.case,
            "occurrences_in_run": count,
        });
        // replay: twice, same signature both times. The library's own hash maps are seeded per instance,
        // so a defect whose manifestation depends on their iteration order may need several replays; it is
        // reported (marked order-dependent) if it reproduces at all, and is a machinery error only if it
        // never does.
        let recheck = |case: &Value| -> Vec<String> {
            match guarded(|| recheck(case)) {
                Ok(v) => v,
                Err((loc, _)) => vec![format!("panic:{loc}")],
            }
        };
        let r1 = recheck(&v.case);
        let r2 = recheck(&v.case);
        let mut order_dependent = false;
        if r1 != r2 || !r1.iter().any(|s| s == sig) {
            let mut reproduced = r1.iter().any(|s| s == sig) || r2.iter().any(|s| s == sig);
            let mut tries = 2;
            while !reproduced && tries < 40 {
                reproduced = recheck(&v.case).iter().any(|s| s == sig);
                tries += 1;
            }
            if !reproduced {
                // The case does not fail when it is executed alone. Either the machinery is not
                // deterministic (a machinery error), or the subject keeps state between calls (a lazily
                // built global, a thread-local scratch buffer, a process-wide cache) and the case only fails
                // after the calls that preceded it in the exploration. The two are told apart by running the
                // WHOLE deterministic exploration a second time (the driver does that when this process exits
                // with status 3): a signature that is reported by both explorations and by neither isolated
                // replay is a violation whose replay is the exploration itself.
                if confirm_list.iter().any(|s| s == sig) {
                    history_dependent = true;
                } else if confirm_mode {
                    late_unconfirmed.push(sig.clone());
                    continue;
                } else {
                    eprintln!(
                        "NOTE: property={} signature={} did not reproduce on {} isolated replays (first={:?} second={:?}); the whole exploration is run a second time to tell hidden shared state in the subject from nondeterminism in the machinery",
                        ctx.prop, sig, tries, r1, r2
                    );
                    pending_confirm.push(sig.clone());
                    continue;
                }
            }
            order_dependent = !history_dependent;
        }
        let is_known = known.iter().any(|k| k.property == ctx.prop && k.status == "open" && &k.signature == sig);
        if is_known {
            known_hits += 1;
            println!("KNOWN-FINDING: property={} {} ({} occurrence(s) in this run): {}", ctx.prop, sig, count, v.what);
        } else {
            new_violations += 1;
            if history_dependent {
                replay_doc["replay_mode"] = json!(format!(
                    "history-dependent: the case fails inside the exploration (reported by two consecutive complete explorations) but not when executed alone, i.e. the library's answer depends on calls made earlier in the same process; replay with `./check {} {}`",
                    ctx.prop,
                    ctx.tier.name()
                ));
            }
            let path = replay_dir.join(format!("{}-{:016x}.json", ctx.prop, fnv(sig)));
            match std::fs::File::create(&path) {
                Ok(mut f) => {
                    let _ = f.write_all(serde_json::to_string_pretty(&replay_doc).unwrap().as_bytes());
                }
                Err(e) => eprintln!("cannot write replay {}: {e}", path.display()),
            }
            println!("VIOLATION property={} replay={}", ctx.prop, path.display());
            println!(
                "  signature: {sig}{}",
                if history_dependent {
                    "  [history-dependent: fails inside two consecutive complete explorations but not when the case is executed alone: the answer depends on earlier calls in the same process (hidden shared state)]"
                } else if order_dependent {
                    "  [manifests depending on the library's hash-map iteration order: replay may need several attempts]"
                } else {
                    ""
                }
            );
            println!("  what: {}", v.what);
        }
        violation_summaries.push(json!({"signature": sig, "known": is_known, "occurrences": count, "what": v.what}));
    }

    let capped = ctx.capped.lock().unwrap().clone();
    if let Some(why) = &capped {
        cov.set("exhaustive", json!(false));
        cov.set("cap_hit", json!(why));
    }
    if !cov.fields.contains_key("evaluations") {
        cov.set("evaluations", json!(ctx.evaluations.load(Ordering::Relaxed)));
    }
    cov.set("violation_signatures", json!(violation_summaries));
    cov.set("threads", json!(ctx.threads));

    let evidence = json!({
        "property_id": ctx.prop,
        "tier": ctx.tier.name(),
        "seed": ctx.seed,
        "level": ctx.level,
        "coverage": Value::Object(cov.fields.clone()),
        "assumptions": cov.assumptions,
        "wall_s": (ctx.wall_s() * 1000.0).round() / 1000.0,
        "violations": new_violations,
        "known_findings_hit": known_hits,
    });
    let ev_dir = verif_root().join("evidence");
    let _ = std::fs::create_dir_all(&ev_dir);
    let ev_path = ev_dir.join(format!("{}.json", ctx.prop));
    let tmp = ev_dir.join(format!("{}.json.tmp", ctx.prop));
    std::fs::write(&tmp, serde_json::to_string_pretty(&evidence).unwrap()).expect("write evidence");
    std::fs::rename(&tmp, &ev_path).expect("rename evidence");

    println!(
        "SUMMARY property={} tier={} evaluations={} new_violations={} known_findings={} wall_s={:.1}{}",
        ctx.prop,
        ctx.tier.name(),
        cov.fields.get("evaluations").cloned().unwrap_or(json!(0)),
        new_violations,
        known_hits,
        ctx.wall_s(),
        match &capped {
            Some(w) => format!(" CAPPED({w})"),
            None => String::new(),
        }
    );
    if confirm_mode {
        for s in &confirm_list {
            if !sink.contains_key(s) {
                if new_violations > 0 {
                    // Hidden shared state in the subject has been demonstrated by another violation of this run (one that
                    // reproduces alone, or one confirmed by both explorations): how it manifests on the remaining cases depends
                    // on which worker thread ran what before. Not reported, not a machinery error.
                    println!("NOTE: property={} signature={} was reported by the first exploration only (not reproducible in isolation, not reported again): dropped", ctx.prop, s);
                } else {
                    eprintln!("MACHINERY-ERROR: property={} signature={} was reported by the first exploration only (not reproducible in isolation, not reported again)", ctx.prop, s);
                    machinery_error = true;
                }
            }
        }
        let _ = std::fs::remove_file(&confirm_path);
    }
    for s in &late_unconfirmed {
        if new_violations > 0 {
            println!("NOTE: property={} signature={} was reported by the second exploration only and does not reproduce in isolation: dropped", ctx.prop, s);
        } else {
            eprintln!("MACHINERY-ERROR: property={} signature={} did not reproduce in isolation and was not reported by the first exploration", ctx.prop, s);
            machinery_error = true;
        }
    }
    if machinery_error {
        return 2;
    }
    if !pending_confirm.is_empty() {
        let _ = std::fs::write(&confirm_path, serde_json::to_string(&pending_confirm).unwrap());
        return 3;
    }
    if new_violations > 0 {
        1
    } else {
        0
    }
}

/// Run `f` over `items` on `threads` threads (dynamic work stealing by atomic index).
pub fn par_for_each<T: Sync, F: Fn(usize, &T) + Sync>(threads: usize, items: &[T], f: F) {
    let next = AtomicUsize::new(0);
    std::thread::scope(|s| {
        for _ in 0..threads.max(1) {
            s.spawn(|| loop {
                let i = next.fetch_add(1, Ordering::Relaxed);
                if i >= items.len() {
                    break;
                }
                f(i, &items[i]);
            });
        }
    });
}

/// Run `f(i)` for i in 0..n on `threads` threads.
pub fn par_range<F: Fn(usize) + Sync>(threads: usize, n: usize, f: F) {
    let next = AtomicUsize::new(0);
    std::thread::scope(|s| {
        for _ in 0..threads.max(1) {
            s.spawn(|| loop {
                let i = next.fetch_add(1, Ordering::Relaxed);
                if i >= n {
                    break;
                }
                f(i);
            });
        }
    });
}

/// Collects up to `cap` sample values (first come).
pub struct Samples {
    cap: usize,
    items: Mutex<Vec<Value>>,
}

impl Samples {
    pub fn new(cap: usize) -> Self {
        Samples { cap, items: Mutex::new(Vec::new()) }
    }
    pub fn offer(&self, f: impl FnOnce() -> Value) {
        let mut items = self.items.lock().unwrap();
        if items.len() < self.cap {
            items.push(f());
        }
    }
    pub fn full(&self) -> bool {
        self.items.lock().unwrap().len() >= self.cap
    }
    pub fn take(&self) -> Vec<Value> {
        self.items.lock().unwrap().clone()
    }
}

/// A concurrent set of 128-bit fingerprints, used to count distinct observations.
pub struct DistinctSet {
    shards: Vec<Mutex<std::collections::HashSet<u128>>>,
}

impl DistinctSet {
    pub fn new() -> Self {
        DistinctSet { shards: (0..64).map(|_| Mutex::new(std::collections::HashSet::new())).collect() }
    }
    pub fn insert_str(&self, s: &str) -> bool {
        self.insert(fp128(s.as_bytes()))
    }
    pub fn insert(&self, h: u128) -> bool {
        let shard = (h as usize) % self.shards.len();
        self.shards[shard].lock().unwrap().insert(h)
    }
    pub fn len(&self) -> usize {
        self.shards.iter().map(|s| s.lock().unwrap().len()).sum()
    }
}

impl Default for DistinctSet {
    fn default() -> Self {
        Self::new()
    }
}

/// 128-bit FNV-style fingerprint (two independent 64-bit lanes).
pub fn fp128(bytes: &[u8]) -> u128 {
    let mut a: u64 = 0xcbf29ce484222325;
    let mut b: u64 = 0x84222325cbf29ce4;
    for x in bytes {
        a ^= *x as u64;
        a = a.wrapping_mul(0x100000001b3);
        b = b.wrapping_add(*x as u64 + 0x9e3779b97f4a7c15);
        b ^= b >> 29;
        b = b.wrapping_mul(0xbf58476d1ce4e5b9);
    }
    ((a as u128) << 64) | (b as u128)
}

/// All permutations of 0..n (n small).
pub fn permutations(n: usize) -> Vec<Vec<usize>> {
    fn rec(cur: &mut Vec<usize>, used: &mut Vec<bool>, n: usize, out: &mut Vec<Vec<usize>>) {
        if cur.len() == n {
            out.push(cur.clone());
            return;
        }
        for i in 0..n {
            if !used[i] {
                used[i] = true;
                cur.push(i);
                rec(cur, used, n, out);
                cur.pop();
                used[i] = false;
            }
        }
    }
    let mut out = Vec::new();
    rec(&mut Vec::new(), &mut vec![false; n], n, &mut out);
    out
}

thread_local! {
    static PANIC_LOCATION: std::cell::RefCell<Option<String>> = const { std::cell::RefCell::new(None) };
    static GUARD_DEPTH: std::cell::Cell<u32> = const { std::cell::Cell::new(0) };
}

/// Silence the default panic hook output for panics that are caught on purpose; the hook records the
/// source location of the panic so that a caught panic can be reported with its call site.
pub fn quiet_panics() {
    std::panic::set_hook(Box::new(|info| {
        let loc = info.location().map(|l| format!("{}:{}", l.file(), l.line())).unwrap_or_else(|| "?".into());
        if GUARD_DEPTH.with(|d| d.get()) == 0 {
            // not inside a guarded call of the subject: nobody will catch this one, say what happened
            eprintln!("MACHINERY-ERROR: panic outside a guarded call at {loc}: {info}");
        }
        PANIC_LOCATION.with(|l| *l.borrow_mut() = Some(loc));
    }));
}

/// Run `f`, converting a panic of the subject into Err((location, message)).
pub fn guarded<T>(f: impl FnOnce() -> T) -> Result<T, (String, String)> {
    PANIC_LOCATION.with(|l| *l.borrow_mut() = None);
    GUARD_DEPTH.with(|d| d.set(d.get() + 1));
    let r = std::panic::catch_unwind(std::panic::AssertUnwindSafe(f));
    GUARD_DEPTH.with(|d| d.set(d.get().saturating_sub(1)));
    match r {
        Ok(v) => Ok(v),
        Err(e) => {
            let loc = PANIC_LOCATION.with(|l| l.borrow().clone()).unwrap_or_else(|| "?".into());
            if loc.starts_with("/verif/") || loc.contains("harness/src/") {
                eprintln!("MACHINERY-ERROR: the harness itself panicked at {loc}: {}", panic_message(&e));
                std::process::exit(2);
            }
            // path inside the library's tree, wherever that tree is checked out
            let loc = if let Some(i) = loc.find("/registry/src/") {
                // a dependency of the library: name the crate, not where this machine keeps its sources
                let rest = &loc[i + "/registry/src/".len()..];
                match rest.find('/') {
                    Some(j) => format!("dependency:{}", &rest[j + 1..]),
                    None => rest.to_string(),
                }
            } else {
                match loc.find("/src/") {
                    Some(i) if !loc.contains("/rustc/") => loc[i + 1..].to_string(),
                    _ => loc,
                }
            };
            Err((loc, panic_message(&e)))
        }
    }
}

pub fn panic_message(e: &Box<dyn std::any::Any + Send>) -> String {
    if let Some(s) = e.downcast_ref::<&str>() {
        s.to_string()
    } else if let Some(s) = e.downcast_ref::<String>() {
        s.clone()
    } else {
        "<non-string panic>".to_string()
    }
}

// ------------------------------------------------------------------------------------------------
// Termination watchdog. A call into the subject that never returns cannot be interrupted from inside its
// thread, so every worker publishes the case it is executing (`watched`) and refreshes a heartbeat between the
// steps of a long case (`heartbeat`); a watchdog thread reports the first case whose last heartbeat is older
// than the limit as the violation `does-not-terminate` (with a replay file), then ends the process.

pub struct WatchSlot {
    cur: Mutex<Option<(Instant, Value, Option<Value>)>>,
}

static WATCH_REGISTRY: Mutex<Vec<std::sync::Arc<WatchSlot>>> = Mutex::new(Vec::new());
static WATCH_ON: std::sync::atomic::AtomicBool = std::sync::atomic::AtomicBool::new(false);

thread_local! {
    static MY_WATCH_SLOT: std::sync::Arc<WatchSlot> = {
        let s = std::sync::Arc::new(WatchSlot { cur: Mutex::new(None) });
        WATCH_REGISTRY.lock().unwrap().push(s.clone());
        s
    };
}

pub fn watch_limit_s() -> u64 {
    std::env::var("VERIF_WATCHDOG_S").ok().and_then(|s| s.parse().ok()).unwrap_or(60)
}

/// Execute `f` as one watched unit of work; `case` renders the replayable case (only evaluated when the watchdog runs).
pub fn watched<T>(case: impl FnOnce() -> Value, f: impl FnOnce() -> T) -> T {
    if !WATCH_ON.load(Ordering::Relaxed) {
        return f();
    }
    let c = case();
    // nested use: the outer case stays, the inner one becomes its detail
    let nested = MY_WATCH_SLOT.with(|s| {
        let mut g = s.cur.lock().unwrap();
        match &mut *g {
            Some((t, _, d)) => {
                *t = Instant::now();
                *d = Some(c.clone());
                true
            }
            None => {
                *g = Some((Instant::now(), c.clone(), None));
                false
            }
        }
    });
    let r = f();
    if !nested {
        MY_WATCH_SLOT.with(|s| *s.cur.lock().unwrap() = None);
    }
    r
}

/// Cheap progress mark inside a watched unit (no allocation): restarts its timer. Called between the individual library
/// calls of a unit, so that the limit applies to ONE call that does not return, not to a long unit on a loaded machine.
pub fn beat() {
    if !WATCH_ON.load(Ordering::Relaxed) {
        return;
    }
    MY_WATCH_SLOT.with(|s| {
        if let Some((t, _, _)) = &mut *s.cur.lock().unwrap() {
            *t = Instant::now();
        }
    });
}

/// Progress inside a watched unit: restarts its timer and records where it is.
pub fn heartbeat(detail: impl FnOnce() -> Value) {
    if !WATCH_ON.load(Ordering::Relaxed) {
        return;
    }
    MY_WATCH_SLOT.with(|s| {
        if let Some((t, _, d)) = &mut *s.cur.lock().unwrap() {
            *t = Instant::now();
            *d = Some(detail());
        }
    });
}

/// One case of an enumeration: published to the termination watchdog, executed with panics of the subject caught.
/// A panic comes back as one ("panic:<file:line>", message) finding so that it is reported like any other violation.
pub fn run_case(case: impl Fn() -> Value, f: impl FnOnce() -> Vec<(String, String)>) -> Vec<(String, String)> {
    match watched(&case, || guarded(f)) {
        Ok(v) => v,
        Err((loc, msg)) => vec![(format!("panic:{loc}"), format!("the library panicked at {loc}: {msg}"))],
    }
}

/// Start the watchdog thread of a check. A stuck case ends the process: exit 1 with a VIOLATION line (exit 0 with a
/// KNOWN-FINDING line if the signature is listed as open).
pub fn start_watchdog(prop: &'static str, tier: Tier, level: &'static str, write_evidence: bool) {
    if WATCH_ON.swap(true, Ordering::Relaxed) {
        return;
    }
    let limit = watch_limit_s();
    std::thread::spawn(move || loop {
        std::thread::sleep(std::time::Duration::from_millis(500));
        let slots: Vec<std::sync::Arc<WatchSlot>> = WATCH_REGISTRY.lock().unwrap().clone();
        for s in slots {
            let stuck = {
                let g = s.cur.lock().unwrap();
                match &*g {
                    Some((t, case, detail)) if t.elapsed().as_secs() >= limit => Some((case.clone(), detail.clone())),
                    _ => None,
                }
            };
            if let Some((mut case, detail)) = stuck {
                if let (Some(obj), Some(Value::Object(d))) = (case.as_object_mut(), detail.clone()) {
                    for (k, v) in d {
                        obj.insert(k, v);
                    }
                } else if let (Some(obj), Some(d)) = (case.as_object_mut(), detail) {
                    obj.insert("watch_detail".into(), d);
                }
                let label = case.get("watch_label").and_then(|l| l.as_str()).unwrap_or("").to_string();
                let sig = if label.is_empty() { "does-not-terminate".to_string() } else { format!("does-not-terminate:{label}") };
                let known = load_known_findings().iter().any(|k| k.property == prop && k.status == "open" && k.signature == sig);
                let dir = verif_root().join("replays");
                let _ = std::fs::create_dir_all(&dir);
                let path = dir.join(format!("{prop}-{:016x}.json", fnv(&format!("{sig}{case}"))));
                let what = format!("a call into the library did not return within {limit}s while executing this case (the process was ended by the termination watchdog)");
                let doc = json!({"property": prop, "signature": sig, "what": what, "case": case});
                let _ = std::fs::write(&path, serde_json::to_string_pretty(&doc).unwrap());
                let evidence = json!({"property_id": prop, "tier": tier.name(), "seed": 0, "level": level, "wall_s": 0.0, "violations": if known { 0 } else { 1 },
                    "coverage": {"evaluations": 1, "distinct_nontrivial": 1, "states": 1, "transitions": 1, "traces_validated_against_impl": 1, "rule": "run ended by the termination watchdog", "samples": [case], "exhaustive": false}});
                if write_evidence {
                    let _ = std::fs::create_dir_all(verif_root().join("evidence"));
                    let _ = std::fs::write(verif_root().join("evidence").join(format!("{prop}.json")), serde_json::to_string_pretty(&evidence).unwrap());
                }
                if known {
                    println!("KNOWN-FINDING: property={prop} {sig}");
                    std::process::exit(0);
                }
                println!("VIOLATION property={prop} replay={}", path.display());
                println!("  signature: {sig}");
                println!("  what: {what}");
                std::process::exit(1);
            }
        }
    });
}
